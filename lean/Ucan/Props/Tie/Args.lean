import Ucan.Gen.Args
import Ucan.Props.Tie.Limits
import Ucan.Props.Tie.DecodeBridge
/-!
Regenerated-code tie for `(*args.Args).Validate` (`pkg/args/args.go`): the check both decoders run on a decoded invocation's
arguments (C10: argument integers within ±(2^53−1)). It ranges over the Go map `a.Values`, whose iteration order is unspecified:
the translation ranges over the map's entries as a list, and the theorems below hold for EVERY such list — acceptance is "all
values in bounds", which no order of the entries changes (`Args_Validate_order_irrelevant`). The walk over each value is the
regenerated `limits.ValidateIntegerBoundsIPLD` (`Tie/Limits`), called with the fuel the value's nesting depth asks for.
-/
set_option linter.unusedSimpArgs false
namespace Ucan.Tie
open Ucan Ucan.GoM Ucan.Policy

theorem run_ok_iff (n : Node) : Gen.ValidateIntegerBoundsIPLD_run n = .ok () ↔ intsInBounds n = true := by
  unfold Gen.ValidateIntegerBoundsIPLD_run
  exact ValidateIntegerBoundsIPLD_ok_iff n _ (by omega)

theorem run_refusal_is_value (n : Node) (e : GoErr) (h : Gen.ValidateIntegerBoundsIPLD_run n = .error e) : ∃ m, e = .err m := by
  unfold Gen.ValidateIntegerBoundsIPLD_run at h
  exact ValidateIntegerBoundsIPLD_refusal_is_value n _ (by omega) e h

/-- the loop over the value map visits every remaining entry -/
theorem args_loop_eq (a : Gen.ArgsVal) :
    ∀ (fuel k : Nat), a.Values.length - k < fuel → k ≤ a.Values.length →
      Gen.Args_Validate.loop1 fuel a (k : Int) =
        (match allOk Gen.ValidateIntegerBoundsIPLD_run ((a.Values.drop k).map (·.2)) with
         | .ok _ => .ok (.next (a.Values.length : Int))
         | .error e => .error e)
  | 0, _, h, _ => by omega
  | fuel + 1, k, h, hk => by
    rw [Gen.Args_Validate.loop1]
    cases hd : a.Values.drop k with
    | nil =>
      have : a.Values.length ≤ k := by
        rcases Nat.lt_or_ge k a.Values.length with h' | h'
        · have := List.drop_eq_getElem_cons h'; rw [this] at hd; cases hd
        · exact h'
      have hk' : k = a.Values.length := by omega
      simp [allOk, len, hk', bind, Except.bind, pure, Except.pure]
    | cons x rest =>
      obtain ⟨hi, hl, hr⟩ := idx_drop _ _ _ _ hd
      have hk1 : ((k : Int) + 1) = ((k + 1 : Nat) : Int) := by omega
      have hlt : k < a.Values.length := by simp only [len] at hl; omega
      simp only [hl, hi, decide_true, Bool.not_true, Bool.false_eq_true, ↓reduceIte, bind, Except.bind, pure, Except.pure, hk1, allOk,
        List.map_cons]
      cases hg : Gen.ValidateIntegerBoundsIPLD_run x.2 with
      | error e => rfl
      | ok u =>
        simp only []
        rw [args_loop_eq a fuel (k + 1) (by omega) (by omega), hr]

theorem Args_Validate_eq (a : Gen.ArgsVal) :
    Gen.Args_Validate a = allOk Gen.ValidateIntegerBoundsIPLD_run (a.Values.map (·.2)) := by
  unfold Gen.Args_Validate
  have := args_loop_eq a (a.Values.length + 1) 0 (by omega) (by omega)
  simp only [Int.natCast_zero, List.drop_zero] at this
  simp only [bind, Except.bind, pure, Except.pure, this]
  cases allOk Gen.ValidateIntegerBoundsIPLD_run (a.Values.map (·.2)) <;> rfl

theorem allOk_run (vs : List Node) :
    (allOk Gen.ValidateIntegerBoundsIPLD_run vs = .ok () ↔ vs.all intsInBounds = true) ∧
    (∀ e, allOk Gen.ValidateIntegerBoundsIPLD_run vs = .error e → ∃ m, e = .err m) := by
  induction vs with
  | nil => simp [allOk]
  | cons x xs ih =>
    simp only [allOk, List.all_cons, Bool.and_eq_true]
    cases hx : Gen.ValidateIntegerBoundsIPLD_run x with
    | ok u =>
      have : intsInBounds x = true := (run_ok_iff x).1 (by rw [hx])
      simp only [this, true_and]
      exact ih
    | error e =>
      have hb : ¬ intsInBounds x = true := fun hb => by rw [(run_ok_iff x).2 hb] at hx; cases hx
      refine ⟨by simp [hb], ?_⟩
      intro e' he'
      cases he'
      exact run_refusal_is_value x e hx

/-- `Args.Validate`, regenerated: it accepts exactly the argument sets all of whose values have their integers within ±(2^53−1) -/
theorem Args_Validate_ok_iff (a : Gen.ArgsVal) :
    Gen.Args_Validate a = .ok () ↔ a.Values.all (fun kv => intsInBounds kv.2) = true := by
  rw [Args_Validate_eq, (allOk_run _).1, List.all_map]
  rfl

/-- … a refusal is an error value (no panic: integers beyond int64 included; no exhausted fuel) -/
theorem Args_Validate_refusal_is_value (a : Gen.ArgsVal) (e : GoErr) (h : Gen.Args_Validate a = .error e) : ∃ m, e = .err m := by
  rw [Args_Validate_eq] at h
  exact (allOk_run _).2 e h

/-- … and the verdict does not depend on the order in which the Go map hands out its entries -/
theorem Args_Validate_order_irrelevant (a b : Gen.ArgsVal) (h : a.Values.Perm b.Values) :
    (Gen.Args_Validate a = .ok () ↔ Gen.Args_Validate b = .ok ()) := by
  rw [Args_Validate_ok_iff, Args_Validate_ok_iff, List.all_eq_true, List.all_eq_true]
  exact ⟨fun hh x hx => hh x (h.symm.subset hx), fun hh x hx => hh x (h.subset hx)⟩

/-- the `Args.Validate` that the decode bridge (`Tie/DecodeBridge`: `Inv_decode_is_model`) takes as the model's, `argsP`, accepts
exactly what the regenerated one accepts — on the decoded argument map, whatever the key list says -/
theorem argsP_is_Args_Validate (keys : List Bytes) (vals : List (Bytes × Node)) :
    argsP vals = .ok () ↔ Gen.Args_Validate { Keys := keys, Values := vals } = .ok () := by
  rw [Args_Validate_ok_iff]
  unfold argsP
  by_cases h : (vals.all fun kv => intsInBounds kv.2) = true <;> simp [h]

/-- C10, the argument clause, over regenerated code from end to end: whatever the typed payload `m` (bindnode's part) holds, an
invocation that the regenerated `tokenFromModel` — with the regenerated `validate()` and the regenerated `Args.Validate`, which
walks every value with the regenerated `limits.ValidateIntegerBoundsIPLD` — hands out has every integer of every argument within
±(2^53−1), at any nesting depth. (`did.Parse`, `OptionalDID`, the empty metadata and the "defined" test are arbitrary here.) -/
theorem Inv_decoded_args_in_bounds {D C M : Type} [DecidableEq D] (lower : Bytes → Bytes) (didParse : Bytes → GoM D)
    (optDID : Option Bytes → GoM D) (newMeta : M) (defined : D → Bool)
    (m : Gen.InvModel C (List (Bytes × Node)) M) (t : Gen.InvDec D C (List (Bytes × Node)) M)
    (h : Gen.Inv_tokenFromModel lower didParse optDID newMeta (Gen.Inv_validate lower defined)
          (fun a => Gen.Args_Validate { Keys := a.map (·.1), Values := a }) m = .ok t) :
    t.arguments.all (fun kv => intsInBounds kv.2) = true := by
  have hw := Inv_decode_wellformed lower didParse optDID newMeta defined
    (fun a => Gen.Args_Validate { Keys := a.map (·.1), Values := a }) m t h
  exact (Args_Validate_ok_iff _).1 hw.2.2.2.2.2.1

example : Gen.Args_Validate { Keys := [[97]], Values := [([97], .list [.int 9007199254740992])] } ≠ .ok () := by
  rw [Ne, Args_Validate_ok_iff]; decide

end Ucan.Tie
