import Ucan.Gen.Command
import Ucan.Model.Command
/-! Regenerated-code tie for `Command.Covers` (C02, C15); see `Ucan/Props/Tie/Command.lean` for what the tie is. -/
set_option linter.unusedSimpArgs false
set_option linter.unusedSectionVars false
namespace Ucan.Tie
open Ucan Ucan.GoM

/-- `Command.Covers`, regenerated, is the model's `covers`; in particular `other[len(c)]` never panics -/
theorem Command_Covers_eq (c o : Bytes) : Gen.Command_Covers c o = pure (Command.covers c o) := by
  unfold Gen.Command_Covers Command.covers
  by_cases h : List.isPrefixOf c o = true
  · have hl := (List.isPrefixOf_iff_prefix.mp h).length_le
    by_cases h1 : c = [47]
    · subst h1; simp [h, gor, Command.slash, pure, Except.pure, bind, Except.bind]
    · by_cases h2 : c.length = o.length
      · simp [h, h1, h2, gor, len, Command.slash, pure, Except.pure, bind, Except.bind]
      · have h3 : c.length < o.length := by omega
        have h4 : ¬ ((c.length : Int) = o.length) := by omega
        simp [h, h1, h2, h3, h4, gor, len, idx, Command.slash, pure, Except.pure, bind, Except.bind]
  · simp [h, pure, Except.pure, bind, Except.bind]

end Ucan.Tie
