import Ucan.Gen.ParseDid
import Ucan.Props.Tie.DecodeBridge
/-!
Regenerated-code tie for `parse.OptionalDID` (`token/internal/parse/parse.go`), through which both decoders read the optional
principals (a delegation's subject, an invocation's audience): an absent field is the undefined DID, a present one goes through
`did.Parse`. The decode bridge (`Tie/DecodeBridge`) takes this function as the parameter `optP`; shown here: `optP` IS the
regenerated function, with `did.Parse` and the undefined DID instantiated as the bridge instantiates them.
-/
namespace Ucan.Tie
open Ucan Ucan.GoM Ucan.Token Ucan.Envelope

/-- for every `did.Parse` and every undefined value: absent ↦ undefined, present ↦ parsed (a refusal is the parser's) -/
theorem OptionalDID_eq {D : Type} (parse : Bytes → GoM D) (undef : D) (s : Option Bytes) :
    Gen.OptionalDID parse undef s = (match s with | none => .ok undef | some t => parse t) := by
  unfold Gen.OptionalDID
  cases s with
  | none => simp [notNil, pure, Except.pure]
  | some t =>
    simp only [notNil, deref, Option.isSome_some, Bool.not_true, Bool.false_eq_true, ↓reduceIte, bind, Except.bind, pure, Except.pure]
    try (cases parse t <;> rfl)

/-- the decode bridge's `optP` is the regenerated `OptionalDID` over the bridge's `did.Parse` -/
theorem optP_is_OptionalDID {K : Type} (env : TEnv K) : optP env = Gen.OptionalDID (didP env) none := by
  funext s
  rw [OptionalDID_eq]
  cases s <;> rfl

end Ucan.Tie
