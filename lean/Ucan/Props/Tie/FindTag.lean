import Ucan.Props.Tie.Inspect
/-!
Regenerated-code tie for `envelope.FindTag` (C10: "a delegation is never returned as an invocation or vice versa" starts here —
the generic decoders dispatch on the tag this function finds). `FindTag_ok_iff`: the regenerated function finds a tag exactly
when the hand model `Envelope.findTag` does, and the same one: the key of the first of the first TWO entries of the signed map
that begins with `ucan/`; it never looks at a third entry.
-/
set_option linter.unusedSimpArgs false
set_option linter.unusedSectionVars false
set_option maxRecDepth 4000
namespace Ucan.Tie
open Ucan Ucan.GoM Ucan.Envelope

/-- one iteration of the loop of `FindTag` -/
theorem findtag_loop_unfold (node spn : Node) (fuel k : Nat) (i : Int) (key : Bytes) (v : Node)
    (hk : (mapEntries spn)[k]? = some (Node.str key, v)) :
    Gen.FindTag.loop1 (fuel + 1) node spn (k : Int) i =
      if i ≥ 2 then .error (.err "expected two and only two fields in SigPayload")
      else if List.isPrefixOf ([117, 99, 97, 110, 47] : Bytes) key = true then .ok (.ret key)
      else Gen.FindTag.loop1 fuel node spn ((k + 1 : Nat) : Int) (i + 1) := by
  have hk1 : ((k : Int) + 1) = ((k + 1 : Nat) : Int) := by omega
  rw [Gen.FindTag.loop1]
  simp only [lt_len_of_getElem? _ _ _ hk, idx_of_getElem? _ _ _ hk, decide_true, Bool.not_true, Bool.false_eq_true, ↓reduceIte, bind,
    Except.bind, pure, Except.pure, asString, throw, throwThe, MonadExceptOf.throw, hk1]
  by_cases hi : i ≥ 2
  · simp only [hi, decide_true, ↓reduceIte]
  · simp only [hi, decide_false, Bool.false_eq_true, ↓reduceIte]

theorem findtag_loop_end (node spn : Node) (fuel k : Nat) (i : Int) (hk : k = (mapEntries spn).length) :
    Gen.FindTag.loop1 (fuel + 1) node spn (k : Int) i = .ok (.next ((k : Int), i)) := by
  rw [Gen.FindTag.loop1]
  have : ¬ ((k : Int) < len (mapEntries spn)) := by simp only [len]; omega
  simp [this, pure, Except.pure]

/-- what `FindTag` does with the outcome of its loop -/
def findTagPost (r : GoM (LoopOut Bytes (Int × Int))) : GoM Bytes :=
  match r with
  | .error e => .error e
  | .ok (.ret t) => .ok t
  | .ok (.next _) => .error (.err "no token tag found")

/-- `FindTag` on a list whose second element is a map, as its loop -/
theorem FindTag_eq_loop (a : Node) (kvs : List (Bytes × Node)) (r : List Node) :
    Gen.FindTag (.list (a :: .map kvs :: r)) =
      findTagPost (Gen.FindTag.loop1 ((mapEntries (Node.map kvs)).length + 1) (.list (a :: .map kvs :: r)) (.map kvs) ((0 : Nat) : Int) 0) := by
  unfold Gen.FindTag
  have hl : lookupByIndex (.list (a :: .map kvs :: r)) (1 : Int) = .ok (.map kvs) := by
    simp [lookupByIndex, pure, Except.pure]
  simp only [hl, bind, Except.bind, pure, Except.pure, Node.kind, bne_self_eq_false, Bool.false_eq_true, ↓reduceIte, Int.natCast_zero]
  generalize Gen.FindTag.loop1 _ _ _ _ _ = res
  cases res with
  | error e => rfl
  | ok v =>
    cases v with
    | ret t => rfl
    | next out => obtain ⟨_, _⟩ := out; simp [findTagPost, throw, throwThe, MonadExceptOf.throw]

/-- `envelope.FindTag`, regenerated, finds exactly the tag the hand model finds -/
theorem FindTag_ok_iff (n : Node) (t : Bytes) : Gen.FindTag n = .ok t ↔ Envelope.findTag n = .ok t := by
  have hp : ∀ k : Bytes, (tagPrefix.isPrefixOf k = true) ↔ (List.isPrefixOf ([117, 99, 97, 110, 47] : Bytes) k = true) := fun _ => Iff.rfl
  cases n with
  | list xs =>
    rcases xs with _ | ⟨a, _ | ⟨b, r⟩⟩
    · simp [Gen.FindTag, lookupByIndex, Envelope.findTag, bind, Except.bind, throw, throwThe, MonadExceptOf.throw]
    · simp [Gen.FindTag, lookupByIndex, Envelope.findTag, bind, Except.bind, throw, throwThe, MonadExceptOf.throw]
    · cases b with
      | map kvs =>
        rw [FindTag_eq_loop]
        rcases kvs with _ | ⟨⟨k1, v1⟩, _ | ⟨⟨k2, v2⟩, rest⟩⟩
        · show findTagPost (Gen.FindTag.loop1 (0 + 1) _ (Node.map []) ((0 : Nat) : Int) 0) = _ ↔ _
          rw [findtag_loop_end _ (Node.map []) 0 0 0 rfl]; simp [findTagPost, Envelope.findTag]
        · have e0 : (mapEntries (Node.map [(k1, v1)]))[0]? = some (Node.str k1, v1) := rfl
          show findTagPost (Gen.FindTag.loop1 (1 + 1) _ _ ((0 : Nat) : Int) 0) = _ ↔ _
          rw [findtag_loop_unfold _ _ 1 0 0 k1 v1 e0]
          by_cases p1 : List.isPrefixOf ([117, 99, 97, 110, 47] : Bytes) k1 = true
          · simp [findTagPost, p1, Envelope.findTag, (hp k1).2 p1]
          · have p1' : ¬ tagPrefix.isPrefixOf k1 = true := fun h => p1 ((hp k1).1 h)
            rw [if_neg (by omega), if_neg p1, findtag_loop_end _ (Node.map [(k1, v1)]) 0 (0 + 1) _ rfl]
            simp [findTagPost, Envelope.findTag, p1']
        · have e0 : (mapEntries (Node.map ((k1, v1) :: (k2, v2) :: rest)))[0]? = some (Node.str k1, v1) := rfl
          have e1 : (mapEntries (Node.map ((k1, v1) :: (k2, v2) :: rest)))[1]? = some (Node.str k2, v2) := rfl
          have hf : (mapEntries (Node.map ((k1, v1) :: (k2, v2) :: rest))).length + 1 = (rest.length + 1) + 1 + 1 := by
            simp [mapEntries]
          rw [hf, findtag_loop_unfold _ _ (rest.length + 1 + 1) 0 0 k1 v1 e0]
          by_cases p1 : List.isPrefixOf ([117, 99, 97, 110, 47] : Bytes) k1 = true
          · simp [findTagPost, p1, Envelope.findTag, (hp k1).2 p1]
          · have p1' : ¬ tagPrefix.isPrefixOf k1 = true := fun h => p1 ((hp k1).1 h)
            rw [if_neg (by omega), if_neg p1, findtag_loop_unfold _ _ (rest.length + 1) (0 + 1) (0 + 1) k2 v2 e1]
            by_cases p2 : List.isPrefixOf ([117, 99, 97, 110, 47] : Bytes) k2 = true
            · simp [findTagPost, p2, Envelope.findTag, p1', (hp k2).2 p2]
            · have p2' : ¬ tagPrefix.isPrefixOf k2 = true := fun h => p2 ((hp k2).1 h)
              rw [if_neg (by omega), if_neg p2]
              -- a third entry, if there is one, is refused for being a third entry; otherwise the loop ends without a tag
              cases rest with
              | nil =>
                show findTagPost (Gen.FindTag.loop1 (0 + 1) _ (Node.map [(k1, v1), (k2, v2)]) ((1 + 1 : Nat) : Int) (0 + 1 + 1)) = _ ↔ _
                rw [findtag_loop_end _ (Node.map [(k1, v1), (k2, v2)]) 0 (1 + 1) _ rfl]
                simp [findTagPost, Envelope.findTag, p1', p2']
              | cons e3 r3 =>
                obtain ⟨k3, v3⟩ := e3
                have e2 : (mapEntries (Node.map ((k1, v1) :: (k2, v2) :: (k3, v3) :: r3)))[2]? = some (Node.str k3, v3) := rfl
                show findTagPost (Gen.FindTag.loop1 ((r3.length + 1) + 1) _ _ ((1 + 1 : Nat) : Int) (0 + 1 + 1)) = _ ↔ _
                rw [findtag_loop_unfold _ _ (r3.length + 1) (1 + 1) (0 + 1 + 1) k3 v3 e2]
                simp [findTagPost, Envelope.findTag, p1', p2']
      | _ =>
        simp [Gen.FindTag, lookupByIndex, Node.kind, Envelope.findTag, bind, Except.bind, pure, Except.pure, throw, throwThe, MonadExceptOf.throw]
  | _ => simp [Gen.FindTag, lookupByIndex, Envelope.findTag, bind, Except.bind, throw, throwThe, MonadExceptOf.throw]

end Ucan.Tie
