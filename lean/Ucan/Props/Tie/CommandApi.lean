import Ucan.Props.Tie.Command
import Ucan.Props.Tie.CommandJoin
/-!
Regenerated-code tie for the rest of the exported surface of `pkg/command`: `Top`, `IsValid`, `New`, `Segments` (C15; `IsValid`
is also what both `validate()` functions ask, C10). `IsValid` only probes `Parse` for an error value
(`_, err := Parse(s); return err == nil`, translated with `GoM.isOk`), `New` is `Top().Join(…)`, `Segments` is
`strings.Split(c, "/")[1:]` with `strings.Split` modelled by `GoM.splitOn` (leftmost, non-overlapping occurrences of a
non-empty separator) — shown here to be the model's one-byte `Command.split`.
-/
set_option linter.unusedSimpArgs false
set_option linter.unusedSectionVars false
namespace Ucan.Tie
open Ucan Ucan.GoM

theorem Command_Top_eq : Gen.Command_Top = .ok [Command.slash] := rfl

/-- `Parse`, regenerated, never panics and never runs out of fuel: a refusal is an error VALUE (for any order of its tests) -/
theorem Command_Parse_error_is_value (lower : Bytes → Bytes) (s : Bytes) (e : GoErr)
    (h : Gen.Command_Parse lower s = .error e) : ∃ n, e = .err n := by
  unfold Gen.Command_Parse at h
  simp only [bind, Except.bind, pure, Except.pure, throw, throwThe, MonadExceptOf.throw] at h
  repeat' (split at h)
  all_goals (first | (injection h with h; exact ⟨_, h.symm⟩) | (cases h))

/-- `command.IsValid`, regenerated: true exactly on the strings the model's `parse` accepts -/
theorem Command_IsValid_eq (lower : Bytes → Bytes) (s : Bytes) :
    Gen.Command_IsValid lower s = .ok (Command.parse lower s).isOk := by
  unfold Gen.Command_IsValid
  cases hg : Gen.Command_Parse lower s with
  | ok c =>
    have := (Command_Parse_ok_iff lower s c).1 hg
    simp [this, isOk, bind, Except.bind, pure, Except.pure, Except.isOk, Except.toBool]
  | error e =>
    obtain ⟨n, rfl⟩ := Command_Parse_error_is_value lower s e hg
    cases hm : Command.parse lower s with
    | ok c => have := (Command_Parse_ok_iff lower s c).2 hm; rw [hg] at this; cases this
    | error e' => simp [isOk, bind, Except.bind, pure, Except.pure, Except.isOk, Except.toBool]

/-- `command.New`, regenerated: the segments joined onto the top command -/
theorem Command_New_eq (segs : List Bytes) : Gen.Command_New segs = .ok (Command.join [Command.slash] segs) := by
  unfold Gen.Command_New
  simp only [Command_Top_eq, Command.slash, bind, Except.bind, pure, Except.pure]
  exact Command_Join_eq [47] segs

theorem split_ne_nil (sep : Byte) : ∀ s : Bytes, Command.split sep s ≠ []
  | [] => by simp [Command.split]
  | b :: bs => by
    rw [Command.split]
    split
    · simp
    · split <;> simp

theorem split_cons_sep (sep : Byte) (rest : Bytes) : Command.split sep (sep :: rest) = [] :: Command.split sep rest := by
  rw [Command.split]; simp

theorem split_cons_other (sep b : Byte) (rest : Bytes) (h : ¬ b = sep) :
    Command.split sep (b :: rest) = (match Command.split sep rest with | [] => [[b]] | x :: xs => (b :: x) :: xs) := by
  rw [Command.split]; simp only [h, ↓reduceIte]
  cases Command.split sep rest <;> rfl

/-- `strings.Split` with a one-byte separator is the model's `split` (for enough fuel; `splitOn` passes `len + 1`) -/
theorem splitOnAux_single (sep : Byte) : ∀ (s : Bytes) (fuel : Nat) (cur : Bytes), s.length < fuel →
    splitOnAux [sep] fuel cur s =
      (match Command.split sep s with
       | x :: xs => (cur.reverse ++ x) :: xs
       | [] => [cur.reverse])
  | [], fuel, cur, hf => by
    cases fuel with
    | zero => omega
    | succ f => simp [splitOnAux, Command.split]
  | b :: rest, fuel, cur, hf => by
    cases fuel with
    | zero => simp at hf
    | succ f =>
      have hf' : rest.length < f := by simp at hf; omega
      unfold splitOnAux
      rw [isPrefixOf_singleton]
      by_cases hb : b = sep
      · subst hb
        have ih := splitOnAux_single b rest f [] hf'
        have hne := split_ne_nil b rest
        simp only [ne_eq, List.cons_ne_self, not_false_eq_true, List.head?_cons, decide_true, and_self, ↓reduceIte,
          List.length_cons, List.length_nil, Nat.zero_add, List.drop_succ_cons, List.drop_zero]
        rw [ih, split_cons_sep]
        cases hsp : Command.split b rest with
        | nil => exact absurd hsp hne
        | cons x xs => simp
      · have ih := splitOnAux_single sep rest f (b :: cur) hf'
        have hne := split_ne_nil sep rest
        have hb' : ¬ sep = b := fun e => hb e.symm
        simp only [ne_eq, List.cons_ne_self, not_false_eq_true, List.head?_cons, Option.some.injEq, hb, hb', decide_false,
          Bool.false_eq_true, and_false, ↓reduceIte]
        rw [ih, split_cons_other sep b rest hb]
        cases hsp : Command.split sep rest with
        | nil => exact absurd hsp hne
        | cons x xs => simp

theorem splitOn_single (sep : Byte) (s : Bytes) : splitOn s [sep] = Command.split sep s := by
  unfold splitOn
  rw [splitOnAux_single sep s (s.length + 1) [] (by omega)]
  cases hsp : Command.split sep s with
  | nil => exact absurd hsp (split_ne_nil sep s)
  | cons x xs => simp

/-- `Command.Segments`, regenerated, is the model's `segments` (no panic: `Split` never returns an empty slice) -/
theorem Command_Segments_eq (c : Bytes) : Gen.Command_Segments c = .ok (Command.segments c) := by
  unfold Gen.Command_Segments Command.segments
  by_cases hc : c = [47]
  · simp [hc, Command.slash, pure, Except.pure]
  · have hne := split_ne_nil 47 c
    simp only [beq_iff_eq, hc, ↓reduceIte, Command.slash, splitOn_single, slice, len, bind, Except.bind, pure, Except.pure]
    cases hsp : Command.split 47 c with
    | nil => exact absurd hsp hne
    | cons x xs =>
      have h1 : (0 : Int) ≤ 1 ∧ (1 : Int) ≤ ((x :: xs).length : Int) ∧ ((x :: xs).length : Int) ≤ ((x :: xs).length : Int) := by
        simp only [List.length_cons]; omega
      simp only [h1, and_self, ↓reduceIte, List.tail_cons]
      have : (((x :: xs).length : Int) - 1).toNat = xs.length := by simp only [List.length_cons]; omega
      simp [this]

end Ucan.Tie
