import Ucan.Gen.Sealed
/-!
Regenerated-code tie for the three buffered `FromSealed` functions (`token/read.go`, `token/delegation/ipld.go`,
`token/invocation/ipld.go`; C08): decoding, the canonical-form check and the CID computation are parameters, so the statements hold
for every behaviour of those three. A token and a CID come out exactly when the bytes decode, ARE in canonical form, and the CID
is the one computed from exactly the bytes that were given — nothing is handed out for bytes that fail the canonical-form check,
and the CID is never that of anything but the whole input.
-/
set_option linter.unusedSimpArgs false
set_option linter.unusedSectionVars false
namespace Ucan.Tie
open Ucan Ucan.GoM

variable {D C S A T : Type} [DecidableEq D]

/-- the common shape: `x ← dec data; canon data; c ← cidOf data; return (x, c)` -/
theorem sealed_shape {X : Type} (dec : Bytes → GoM X) (canon : Bytes → GoM Unit) (cidOf : Bytes → GoM C) (data : Bytes) (x : X) (c : C) :
    (do let t ← dec data; canon data; let i ← cidOf data; pure (t, i) : GoM (X × C)) = .ok (x, c) ↔
      dec data = .ok x ∧ canon data = .ok () ∧ cidOf data = .ok c := by
  cases hd : dec data <;> cases hc : canon data <;> cases hi : cidOf data <;>
    simp [bind, Except.bind, pure, Except.pure]

theorem token_FromSealed_ok_iff (dec : Bytes → GoM T) (canon : Bytes → GoM Unit) (cidOf : Bytes → GoM C) (data : Bytes) (t : T) (c : C) :
    Gen.token_FromSealed dec canon cidOf data = .ok (t, c) ↔ dec data = .ok t ∧ canon data = .ok () ∧ cidOf data = .ok c := by
  unfold Gen.token_FromSealed
  exact sealed_shape dec canon cidOf data t c

theorem Dlg_FromSealed_ok_iff (dec : Bytes → GoM (Gen.DlgTok D S)) (canon : Bytes → GoM Unit) (cidOf : Bytes → GoM C) (data : Bytes)
    (t : Gen.DlgTok D S) (c : C) :
    Gen.Dlg_FromSealed dec canon cidOf data = .ok (t, c) ↔ dec data = .ok t ∧ canon data = .ok () ∧ cidOf data = .ok c := by
  unfold Gen.Dlg_FromSealed
  exact sealed_shape dec canon cidOf data t c

theorem Inv_FromSealed_ok_iff (dec : Bytes → GoM (Gen.InvTok D C A)) (canon : Bytes → GoM Unit) (cidOf : Bytes → GoM C) (data : Bytes)
    (t : Gen.InvTok D C A) (c : C) :
    Gen.Inv_FromSealed dec canon cidOf data = .ok (t, c) ↔ dec data = .ok t ∧ canon data = .ok () ∧ cidOf data = .ok c := by
  unfold Gen.Inv_FromSealed
  exact sealed_shape dec canon cidOf data t c

/-- bytes that are not in canonical form are never unsealed, whatever they decode to -/
theorem token_FromSealed_refuses_noncanonical (dec : Bytes → GoM T) (canon : Bytes → GoM Unit) (cidOf : Bytes → GoM C) (data : Bytes)
    (e : GoErr) (h : canon data = .error e) (r : T × C) : Gen.token_FromSealed dec canon cidOf data ≠ .ok r := by
  intro hr
  have := (token_FromSealed_ok_iff dec canon cidOf data r.1 r.2).1 hr
  rw [h] at this; cases this.2.1

/-- two inputs that are unsealed with the same CID function get the CIDs of THEIR bytes: one sealed form, one CID -/
theorem token_FromSealed_cid_is_of_input (dec : Bytes → GoM T) (canon : Bytes → GoM Unit) (cidOf : Bytes → GoM C) (data : Bytes)
    (t : T) (c : C) (h : Gen.token_FromSealed dec canon cidOf data = .ok (t, c)) : cidOf data = .ok c :=
  ((token_FromSealed_ok_iff dec canon cidOf data t c).1 h).2.2

/-- the common shape: `d ← enc t k; i ← cidOf d; return (d, i)` -/
theorem toSealed_shape {X K : Type} (enc : X → K → GoM Bytes) (cidOf : Bytes → GoM C) (t : X) (k : K) (data : Bytes) (c : C) :
    (do let d ← enc t k; let i ← cidOf d; pure (d, i) : GoM (Bytes × C)) = .ok (data, c) ↔
      enc t k = .ok data ∧ cidOf data = .ok c := by
  cases he : enc t k with
  | error e => simp [bind, Except.bind, pure, Except.pure]
  | ok d =>
    simp only [bind, Except.bind, pure, Except.pure]
    cases hc : cidOf d with
    | error e =>
      constructor
      · intro h; cases h
      · rintro ⟨h1, h2⟩
        cases h1; rw [hc] at h2; cases h2
    | ok c' =>
      constructor
      · intro h
        injection h with h; injection h with h1 h2
        subst h1; subst h2
        exact ⟨rfl, hc⟩
      · rintro ⟨h1, h2⟩
        cases h1; rw [hc] at h2
        injection h2 with h2; subst h2; rfl

/-- `ToSealed` (both token types), regenerated, for every encoder and every CID function: the CID handed out next to the sealed
bytes is the CID computed from exactly those bytes -/
theorem Dlg_ToSealed_ok_iff {K : Type} (cidOf : Bytes → GoM C) (enc : Gen.DlgTok D S → K → GoM Bytes) (t : Gen.DlgTok D S) (k : K)
    (data : Bytes) (c : C) :
    Gen.Dlg_ToSealed cidOf enc t k = .ok (data, c) ↔ enc t k = .ok data ∧ cidOf data = .ok c := by
  unfold Gen.Dlg_ToSealed
  exact toSealed_shape enc cidOf t k data c

theorem Inv_ToSealed_ok_iff {K : Type} (cidOf : Bytes → GoM C) (enc : Gen.InvTok D C A → K → GoM Bytes) (t : Gen.InvTok D C A) (k : K)
    (data : Bytes) (c : C) :
    Gen.Inv_ToSealed cidOf enc t k = .ok (data, c) ↔ enc t k = .ok data ∧ cidOf data = .ok c := by
  unfold Gen.Inv_ToSealed
  exact toSealed_shape enc cidOf t k data c

/-- sealing and unsealing agree on the identifier: what `ToSealed` hands out, `FromSealed` computes again from the same bytes
(with the same CID function) — provided the bytes decode and are canonical -/
theorem seal_unseal_same_cid {K : Type} (cidOf : Bytes → GoM C) (enc : Gen.DlgTok D S → K → GoM Bytes)
    (dec : Bytes → GoM (Gen.DlgTok D S)) (canon : Bytes → GoM Unit) (t t' : Gen.DlgTok D S) (k : K) (data : Bytes) (c c' : C)
    (hs : Gen.Dlg_ToSealed cidOf enc t k = .ok (data, c)) (hu : Gen.Dlg_FromSealed dec canon cidOf data = .ok (t', c')) : c' = c := by
  have h1 := ((Dlg_ToSealed_ok_iff cidOf enc t k data c).1 hs).2
  have h2 := ((Dlg_FromSealed_ok_iff dec canon cidOf data t' c').1 hu).2.2
  rw [h1] at h2; exact (Except.ok.inj h2).symm

-- non-vacuity: with a decoder that accepts, a canonical-form check that passes exactly on [1, 2] and the length as "CID", the
-- regenerated function hands out the token and the CID of the input; on other bytes it refuses
example : Gen.token_FromSealed (C := Nat) (fun b => .ok b.length) (fun b => if b = [1, 2] then .ok () else .error (.err "nc"))
    (fun b => .ok (b.length + 100)) [1, 2] = .ok (2, 102) := by
  simp [Gen.token_FromSealed, bind, Except.bind, pure, Except.pure]

example : Gen.token_FromSealed (C := Nat) (fun b => .ok b.length) (fun b => if b = [1, 2] then .ok () else .error (.err "nc"))
    (fun b => .ok (b.length + 100)) [1, 2, 3] = .error (.err "nc") := by
  simp [Gen.token_FromSealed, bind, Except.bind, pure, Except.pure]

end Ucan.Tie
