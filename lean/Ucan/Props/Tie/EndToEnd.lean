import Ucan.Props.Tie.Command
import Ucan.Props.Tie.CommandCovers
import Ucan.Props.Tie.CommandJoin
import Ucan.Props.Tie.GlobMatch
import Ucan.Props.Tie.Selector
import Ucan.Props.Tie.Meta
import Ucan.Props.Tie.ChainTime
import Ucan.Props.Tie.ChainProofs
import Ucan.Props.Tie.ChainAllowed
import Ucan.Props.Tie.ChainAllowedExact
import Ucan.Props.Tie.Tokenize
import Ucan.Props.C01
import Ucan.Props.C04
import Ucan.Props.C05
import Ucan.Props.C12
import Ucan.Props.C13
import Ucan.Props.C14
import Ucan.Props.C15
import Ucan.Props.C19
/-!
The properties, stated directly about the code that `go2lean` regenerates from the Go source — each is a
property theorem (about the model) transported along a tie theorem (model = regenerated code). Nothing here
mentions a hand-written model in its conclusion: the statements are about `Ucan.Gen.*` only (and the
specifications `CoversSpec`, `Lang`, `pySlice`, `PrincipalSpec`, `CommandSpec`, `InsideWindow`).
-/
set_option linter.unusedSimpArgs false
set_option linter.unusedSectionVars false
namespace Ucan.EndToEnd
open Ucan Ucan.GoM Ucan.Tie

/-- C15, on the regenerated `Covers`: for valid commands it answers `true` exactly for segment prefixes, and never panics -/
theorem Covers_iff_segment_prefix (c o : Bytes) (hc : Command.Valid c) (ho : Command.Valid o) :
    ∃ b, Gen.Command_Covers c o = .ok b ∧ (b = true ↔ Command.CoversSpec c o) :=
  ⟨Command.covers c o, Command_Covers_eq c o, Command.C15_covers_iff c o hc ho⟩

/-- C15, on the regenerated `Parse`: it accepts exactly the grammar and returns its input -/
theorem Parse_ok_iff (lower : Bytes → Bytes) (s : Bytes) :
    Gen.Command_Parse lower s = .ok s ↔ Command.parse lower s = .ok s := by
  exact Command_Parse_ok_iff lower s s

/-- C13, on the regenerated `glob.Match`: for a pattern `parseGlob` accepts it answers `true` exactly for the strings of
the pattern's language, never panics, and its loops end -/
theorem glob_Match_iff_Lang (p s : Bytes) (ts : List Glob.Tok) (hp : Glob.toks p = some ts) :
    ∃ b, Gen.glob_Match p s = .ok b ∧ (b = true ↔ Glob.Lang ts s) :=
  ⟨Glob.globMatch ts s, glob_Match_eq p s ts hp, Glob.C13_globMatch_iff_Lang ts s⟩

/-- C13, on the regenerated `parseGlob`: the patterns it rejects are exactly those that do not tokenize -/
theorem parseGlob_rejects_iff (p : Bytes) : (∃ e, Gen.parseGlob p = .error e) ↔ Glob.toks p = none := by
  rw [parseGlob_eq]
  unfold Glob.parseGlob
  cases Glob.toks p <;> simp

/-- C12, on the regenerated `resolveSliceIndices`: the bounds it returns select Python's slice, and lie within the value -/
theorem resolveSliceIndices_python {α} (xs : List α) (s0 s1 : Int) :
    ∃ a b, Gen.resolveSliceIndices [s0, s1] xs.length = .ok (a, b) ∧
      Selector.extract xs a b = Selector.pySlice xs (Selector.openLo s0) (Selector.openHi s1) ∧
      0 ≤ a ∧ a ≤ b ∧ b ≤ xs.length := by
  refine ⟨(Selector.sliceIndices s0 s1 xs.length).1, (Selector.sliceIndices s0 s1 xs.length).2,
    resolveSliceIndices_eq s0 s1 xs.length, Selector.C12_slice_eq_python xs s0 s1, ?_⟩
  exact Selector.C12_slice_in_range s0 s1 xs.length (by omega)

/-- C19, on the regenerated `validateKey`: accepted exactly for 32-byte keys that are not all zero -/
theorem validateKey_ok_iff (key : Option Bytes) :
    Gen.validateKey key = .ok () ↔ ∃ k, key = some k ∧ k.length = 32 ∧ ¬ (∀ b ∈ k, b = 0) := by
  rw [validateKey_eq, ← Meta.C19_validateKey_iff]
  cases Meta.validateKey key <;> simp [Except.map, Except.mapError]

/-- C14, on the regenerated `tokenize`: when it reports success, the tokens concatenate to the input — no byte of the
selector is dropped and none invented — and it reports failure exactly when a quote is left open -/
theorem tokenize_lossless (str : Bytes) (h0 : str.head? ≠ some 34) :
    (∀ toks, Gen.tokenize str = .ok (toks, true) → toks.flatten = str) ∧
    (Gen.tokenize str = .ok ([], false) ↔ (Selector.tokenize str).2 = true) := by
  rw [tokenize_eq str h0]
  unfold tokResult
  constructor
  · intro toks h
    cases h2 : (Selector.tokenize str).2 with
    | true => simp [h2] at h
    | false =>
      simp [h2] at h
      rw [← h]
      exact Selector.C14_tokenize_partition str
  · cases h2 : (Selector.tokenize str).2 <;> simp [h2]

example : Gen.tokenize [46, 97, 91, 34, 46, 34, 93] = .ok ([[46, 97], [91, 34, 46, 34, 93]], true) := by
  rw [tokenize_eq _ (by decide)]; exact congrArg _ (by decide)

/-- C19, on the regenerated `EncryptWithKey` / `DecryptStringWithKey` alone: under the secretbox contract (`Open` inverts `Seal`
for the same key and nonce) and a random source that delivers 24 bytes, what was encrypted under a valid key decrypts to the same
bytes under that key; and whatever `Open` refuses (another key, a modified box or nonce) is an error -/
theorem secretbox_roundtrip (randRead : Nat → GoM Bytes) (sealFn : Bytes → Bytes → Bytes → Bytes)
    (openFn : Bytes → Bytes → Bytes → (Bytes × Bool)) (hso : ∀ k n m, openFn k n (sealFn k n m) = (m, true))
    (key : Option Bytes) (k nonce data c : Bytes) (hk : Meta.validateKey key = .ok k)
    (hr : randRead 24 = .ok nonce) (hn : nonce.length = 24)
    (h : Gen.EncryptWithKey randRead sealFn data key = .ok c) :
    Gen.DecryptStringWithKey openFn c key = .ok data := by
  rw [EncryptWithKey_eq, hk] at h
  simp only [hr, bind, Except.bind, Meta.encrypt, hk, Except.mapError] at h
  have hc : c = nonce ++ sealFn k nonce data := (Except.ok.inj h).symm
  subst hc
  rw [DecryptStringWithKey_eq]
  have hlen : ¬ (nonce ++ sealFn k nonce data).length < Meta.nonceSize := by simp [Meta.nonceSize, hn]
  have h1 : (nonce ++ sealFn k nonce data).take Meta.nonceSize = nonce := by rw [Meta.nonceSize, ← hn]; simp
  have h2 : (nonce ++ sealFn k nonce data).drop Meta.nonceSize = sealFn k nonce data := by rw [Meta.nonceSize, ← hn]; simp
  have hlen' : ¬ (nonce.length + (sealFn k nonce data).length < Meta.nonceSize) := by simpa using hlen
  simp [Meta.decrypt, hk, hlen', h1, h2, openOpt, hso, Except.mapError]

theorem secretbox_refusal_is_error (openFn : Bytes → Bytes → Bytes → (Bytes × Bool)) (key : Option Bytes) (k c : Bytes)
    (hk : Meta.validateKey key = .ok k) (hl : 24 ≤ c.length) (hr : (openFn k (c.take 24) (c.drop 24)).2 = false) :
    ∃ e, Gen.DecryptStringWithKey openFn c key = .error e := by
  rw [DecryptStringWithKey_eq]
  have h24 : ¬ c.length < 24 := by omega
  refine ⟨metaErr .decryption, ?_⟩
  simp [Meta.decrypt, hk, h24, Meta.nonceSize, openOpt, hr, Except.mapError]

variable {D C A : Type} [DecidableEq D]

/-- C04, on the regenerated `delegation.Token.IsValidAt`: valid strictly inside the window, invalid strictly outside -/
theorem Dlg_IsValidAt_window {S : Type} (undef : D) (g : Gen.DlgTok D S) (t : Int) :
    ((∀ b, g.notBefore = some b → b < t) → (∀ e, g.expiration = some e → t < e) → Gen.Dlg_IsValidAt g t = .ok true) ∧
    (((∃ b, g.notBefore = some b ∧ t < b) ∨ (∃ e, g.expiration = some e ∧ e < t)) → Gen.Dlg_IsValidAt g t = .ok false) := by
  rw [Dlg_IsValidAt_eq undef (fun _ => [])]
  constructor
  · intro h1 h2
    rw [Chain.C04_inside (toDlg undef (fun _ => []) g) t h1 h2]; rfl
  · intro h
    rw [Chain.C04_outside (toDlg undef (fun _ => []) g) t h]; rfl

/-- C01/C02, on the regenerated `verifyProofs`: it returns nil exactly for the chains that satisfy the principal and
command clauses of the specification (one delegation loaded per proof CID, defined subject) -/
theorem verifyProofs_ok_iff_spec {S X : Type} (x : X) (args : Node) (undef : D) (pol) (g : Gen.InvTok D C A)
    (ds : List (Gen.DlgTok D S)) (hs : g.subject ≠ undef) (hlen : ds.length = g.proof.length) :
    Gen.Inv_verifyProofs g ds = .ok () ↔
      Chain.PrincipalSpec (toInv x args g) (ds.map (toDlg undef pol)) ∧
      Chain.CommandSpec (toInv x args g) (ds.map (toDlg undef pol)) := by
  exact Inv_verifyProofs_ok_iff_spec x args undef pol g ds hs hlen

/-- C03, on the regenerated `verifyArgs` (with the model's statement evaluator for `matchStatement`): it returns nil
EXACTLY when every statement of the policy of every loaded delegation admits the arguments — no delegation of the chain is
skipped -/
theorem verifyArgs_ok_iff_spec {A : Type} (undef : D) (pol : Gen.DlgTok D Policy.Stmt → List Policy.Stmt)
    (extIPLD : A → GoM Node) (g : Gen.InvTok D C A) (ds : List (Gen.DlgTok D Policy.Stmt)) (a : A) (args : Node)
    (hlen : ds.length = g.proof.length) (hipld : extIPLD a = .ok args)
    (hpol : ∀ d ∈ ds, d.policy = (pol d).map some) :
    Gen.Inv_verifyArgs extMatch extIPLD g ds a = .ok () ↔ Chain.PolicySpec (ds.map (toDlg undef pol)) args := by
  rw [Inv_verifyArgs_eq undef pol extIPLD g ds a args hlen hipld hpol, ← Chain.verifyArgs_ok_iff]
  cases Chain.verifyArgs (ds.map (toDlg undef pol)) args <;> simp [Except.mapError]

/-- C01–C05, on the regenerated `executionAllowed` (its callees `verifyProofs`, `verifyTimeBound`, `verifyArgs`,
`Policy.Match` regenerated as well; a loader that answers like a table of delegations and the model's statement evaluator for its external calls): it returns
nil EXACTLY when the proofs load and the chain satisfies the principal, command, time and policy clauses of the
specification — soundness (C01–C04) and completeness (C05) in one statement about the translated code -/
theorem executionAllowed_ok_iff_spec {X L A : Type} (x : X) (args : Node) (undef : D) (pol) (now : Int)
    (extGet : L → C → GoM (Gen.DlgTok D Policy.Stmt))
    (extIPLD : A → GoM Node)
    (ldG : C → Option (Gen.DlgTok D Policy.Stmt))
    (g : Gen.InvTok D C A) (loader : L) (a : A) (hs : g.subject ≠ undef)
    (hl : LoaderIs extGet loader ldG)
    (hipld : extIPLD a = .ok args)
    (hpol : ∀ c d, ldG c = some d → d.policy = (pol d).map some) :
    Gen.Inv_executionAllowed now extGet extMatch extIPLD g loader a = .ok () ↔
      ∃ ds, Chain.loadProofs (fun c => (ldG c).map (toDlg undef pol)) g.proof = .ok ds ∧
        Chain.PrincipalSpec (toInv x args g) ds ∧ Chain.CommandSpec (toInv x args g) ds ∧
        Chain.TimeSpec now (toInv x args g) ds ∧ Chain.PolicySpec ds args := by
  exact Inv_executionAllowed_ok_iff_spec x args undef pol now extGet extIPLD ldG g loader a hs hl hipld hpol

/-! ### the hypotheses can be met, and the regenerated code runs -/

/-- the parameters of `executionAllowed` exist as required: a loader over a table of delegations whose policy field holds
the model policy, and a conversion that yields the arguments -/
example {X : Type} (x : X) (args : Node) (undef : D) (now : Int)
    (ldG : C → Option (Gen.DlgTok D Policy.Stmt)) (g : Gen.InvTok D C Unit) (hs : g.subject ≠ undef)
    (hwf : ∀ c d, ldG c = some d → d.policy = (d.policy.filterMap id).map some) :
    let pol : Gen.DlgTok D Policy.Stmt → List Policy.Stmt := fun d => d.policy.filterMap id
    let extGet : Unit → C → GoM (Gen.DlgTok D Policy.Stmt) := fun _ c =>
      match ldG c with
      | some d => .ok d
      | none => .error (.err "not found")
    Gen.Inv_executionAllowed now extGet extMatch (fun (_ : Unit) => .ok args) g () () =
      liftE (Chain.executionAllowed (fun c => (ldG c).map (toDlg undef pol)) now (toInv x args g) args) := by
  intro pol extGet
  have hl : LoaderIs extGet () ldG := by
    intro c
    cases h : ldG c with
    | none => exact ⟨"not found", by simp [extGet, h]⟩
    | some d => simp [extGet, h]
  exact Inv_executionAllowed_eq x args undef pol now extGet _ ldG g () () hs hl rfl hwf

-- "a*b" matches "axxb"; "\\*" matches "*" and not "a"; `/a` covers `/a/b`, not `/ab`; `[-2:]` of a 5-element list is [3,5)
example : Gen.glob_Match [97, 42, 98] [97, 120, 120, 98] = .ok true := by
  rw [glob_Match_eq _ _ [.lit 97, .star, .lit 98] (by decide)]
  exact congrArg _ ((Glob.C13_globMatch_iff_Lang _ _).2 (by rw [← Glob.C13_matchSpec_iff_Lang]; simp [Glob.matchSpec]))
example : Gen.glob_Match [92, 42] [42] = .ok true := by
  rw [glob_Match_eq _ _ [.lit 42] (by decide)]; exact congrArg _ (by decide)
example : Gen.glob_Match [92, 42] [97] = .ok false := by
  rw [glob_Match_eq _ _ [.lit 42] (by decide)]; exact congrArg _ (by decide)
example : Gen.Command_Covers [47, 97] [47, 97, 47, 98] = .ok true := by
  rw [Command_Covers_eq]; exact congrArg _ (by decide)
example : Gen.Command_Covers [47, 97] [47, 97, 98] = .ok false := by
  rw [Command_Covers_eq]; exact congrArg _ (by decide)
example : Gen.resolveSliceIndices [-2, 9223372036854775807] 5 = .ok (3, 5) := by
  rw [resolveSliceIndices_eq]; exact congrArg _ (by decide)

end Ucan.EndToEnd
