import Ucan.Gen.Glob
import Ucan.Model.Glob
/-! Regenerated-code tie for `parseGlob` and `glob.Match` (C13). -/
set_option linter.unusedSimpArgs false
set_option linter.unusedSectionVars false
namespace Ucan.Tie
open Ucan Ucan.GoM

theorem toks_star_isSome (r : Bytes) : (Glob.toks (42 :: r)).isSome = (Glob.toks r).isSome := by
  rw [Glob.toks.eq_def]; simp [Glob.star]

theorem toks_esc_isSome (d : Byte) (r : Bytes) : (Glob.toks (92 :: d :: r)).isSome = (Glob.toks r).isSome := by
  rw [Glob.toks]; simp [Glob.star, Glob.backslash]

theorem toks_lone_isSome : (Glob.toks [92]).isSome = false := by
  rw [Glob.toks]; simp [Glob.star, Glob.backslash]

theorem toks_lit_isSome (c : Byte) (r : Bytes) (h1 : c ≠ 42) (h2 : c ≠ 92) :
    (Glob.toks (c :: r)).isSome = (Glob.toks r).isSome := by
  rw [Glob.toks.eq_def]; simp [Glob.star, Glob.backslash, h1, h2]

theorem n9242 : ((92 : UInt8) == 42) = false := by decide

/-- the validation loop of `parseGlob` from position `k`: it ends at the end of the pattern exactly when
the rest of the pattern tokenizes, and otherwise reports the invalid escape; no index panics, no fuel exhaustion -/
theorem parseGlob_loop (p : Bytes) (fuel k : Nat) (hf : p.length - k < fuel) (hk : k ≤ p.length) :
    Gen.parseGlob.loop1 fuel p (k : Int) =
      if (Glob.toks (p.drop k)).isSome then .ok (.next (p.length : Int)) else .error (.err "invalid escape sequence") := by
  induction fuel generalizing k with
  | zero => omega
  | succ fuel ih =>
    unfold Gen.parseGlob.loop1
    by_cases hlt : k < p.length
    · have hd : p.drop k = p[k] :: p.drop (k + 1) := List.drop_eq_getElem_cons hlt
      have h1 : ((k : Int) < (p.length : Int)) := by omega
      have h2 : ((k : Int) + 1) = ((k + 1 : Nat) : Int) := by omega
      have h3 : ((k : Int) + 1 + 1) = ((k + 2 : Nat) : Int) := by omega
      rw [hd]
      by_cases c1 : p[k] = 42
      · have hm : (Glob.toks (p[k] :: p.drop (k + 1))).isSome = (Glob.toks (p.drop (k + 1))).isSome := by
          rw [c1]; exact toks_star_isSome _
        rw [hm, ← ih (k + 1) (by omega) (by omega)]
        simp only [len, idx, gand, h1, decide_true, Bool.not_true, Bool.false_eq_true, ↓reduceIte,
          Int.natCast_nonneg, Int.toNat_natCast, hlt, and_self, ↓reduceDIte, bind, Except.bind, pure, Except.pure,
          c1, beq_self_eq_true, h2]
      · have c1' : (p[k] == 42) = false := by simpa using c1
        by_cases c2 : p[k] = 92
        · by_cases c3 : k + 1 < p.length
          · have hd2 : p.drop (k + 1) = p[k + 1] :: p.drop (k + 2) := List.drop_eq_getElem_cons c3
            have h4 : ((k : Int) + 1 < (p.length : Int)) := by omega
            have e1 : ((k : Int) + 1).toNat = k + 1 := by omega
            have e0 : (0 : Int) ≤ (k : Int) + 1 := by omega
            have hm : (Glob.toks (p[k] :: p.drop (k + 1))).isSome = (Glob.toks (p.drop (k + 2))).isSome := by
              rw [hd2, c2]; exact toks_esc_isSome _ _
            rw [hm, ← ih (k + 2) (by omega) (by omega)]
            by_cases c4 : p[k + 1] = 42
            · simp only [len, idx, gand, h1, decide_true, Bool.not_true, Bool.false_eq_true, ↓reduceIte,
                Int.natCast_nonneg, Int.toNat_natCast, hlt, and_self, ↓reduceDIte, bind, Except.bind, pure, Except.pure,
                c1', c2, beq_self_eq_true, h4, e0, e1, c3, c4, h3, n9242]
            · have c4' : (p[k + 1] == 42) = false := by simpa using c4
              simp only [len, idx, gand, h1, decide_true, Bool.not_true, Bool.false_eq_true, ↓reduceIte,
                Int.natCast_nonneg, Int.toNat_natCast, hlt, and_self, ↓reduceDIte, bind, Except.bind, pure, Except.pure,
                c1', c2, beq_self_eq_true, h4, e0, e1, c3, c4', h3, n9242]
          · have hk1 : k + 1 = p.length := by omega
            have h4 : ¬ ((k : Int) + 1 < (p.length : Int)) := by omega
            have hnil : p.drop (k + 1) = [] := by rw [hk1]; simp
            have hm : (Glob.toks (p[k] :: p.drop (k + 1))).isSome = false := by
              rw [hnil, c2]; exact toks_lone_isSome
            rw [hm]
            simp only [len, idx, gand, h1, decide_true, Bool.not_true, Bool.false_eq_true, ↓reduceIte,
              Int.natCast_nonneg, Int.toNat_natCast, hlt, and_self, ↓reduceDIte, bind, Except.bind, pure, Except.pure,
              c1', c2, beq_self_eq_true, h4, decide_false, throw, throwThe, MonadExceptOf.throw, n9242]
        · have c2' : (p[k] == 92) = false := by simpa using c2
          have hm : (Glob.toks (p[k] :: p.drop (k + 1))).isSome = (Glob.toks (p.drop (k + 1))).isSome := by
            exact toks_lit_isSome _ _ c1 c2
          rw [hm, ← ih (k + 1) (by omega) (by omega)]
          simp only [len, idx, gand, h1, decide_true, Bool.not_true, Bool.false_eq_true, ↓reduceIte,
            Int.natCast_nonneg, Int.toNat_natCast, hlt, and_self, ↓reduceDIte, bind, Except.bind, pure, Except.pure,
            c1', c2', h2]
    · have : k = p.length := by omega
      subst this
      simp [len, Glob.toks, bind, Except.bind, pure, Except.pure]

/-- `parseGlob`, regenerated, accepts exactly the patterns the model's `toks` tokenizes (C13_parse_reject_iff is
about `toks`) and returns the pattern unchanged -/
theorem parseGlob_eq (p : Bytes) :
    Gen.parseGlob p = if Glob.parseGlob p then .ok p else .error (.err "invalid escape sequence") := by
  unfold Gen.parseGlob Glob.parseGlob
  have := parseGlob_loop p (p.length + 1) 0 (by omega) (by omega)
  simp only [Int.natCast_zero, List.drop_zero] at this
  by_cases h : (Glob.toks p).isSome = true
  · rw [if_pos h] at this
    simp [this, h, bind, Except.bind, pure, Except.pure]
  · rw [if_neg h] at this
    simp [this, h, bind, Except.bind, pure, Except.pure]

end Ucan.Tie
