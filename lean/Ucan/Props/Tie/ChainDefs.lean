import Ucan.Gen.ChainTypes
import Ucan.Model.Chain
/-! How the regenerated token structures map onto the chain model (shared by the ChainTime and ChainProofs ties). -/
set_option linter.unusedSimpArgs false
set_option linter.unusedSectionVars false
namespace Ucan.Tie
open Ucan Ucan.GoM

variable {D C S A : Type} [DecidableEq D]

/-! ### token/delegation, token/invocation: the authorization decision -/


/-- a Go delegation as the chain model sees it; `undef` is `did.Undef`, the absent subject of a powerline
delegation. The policy is not part of the regenerated functions (`verifyArgs` is tied by the `chain` stream). -/
def toDlg (undef : D) (pol : Gen.DlgTok D S → List Policy.Stmt) (g : Gen.DlgTok D S) : Chain.Dlg D :=
  { iss := g.issuer, aud := g.audience, sub := if g.subject = undef then none else some g.subject,
    cmd := g.command, pol := pol g, nbf := g.notBefore, exp := g.expiration }

theorem toDlg_sub_ne (undef sub : D) (pol) (g : Gen.DlgTok D S) (hs : sub ≠ undef) :
    ((toDlg undef pol g).sub ≠ some sub) ↔ g.subject ≠ sub := by
  unfold toDlg
  by_cases h : g.subject = undef
  · simp [h]; exact fun e => hs e.symm
  · simp [h]

def toInv {X : Type} (x : X) (args : Node) (g : Gen.InvTok D C A) : Chain.Inv D C X :=
  { iss := g.issuer, sub := g.subject, cmd := g.command, args := args, prf := g.proof, exp := g.expiration,
    aud := some g.audience, nonce := x, metadata := x, cause := x, iat := x }

def chainErr : Chain.Err → GoErr
  | .noProof => .err "ErrNoProof"
  | .missingDelegation => .err "ErrMissingDelegation"
  | .wrongSub => .err "ErrWrongSub"
  | .brokenChain => .err "ErrBrokenChain"
  | .commandNotCovered => .err "ErrCommandNotCovered"
  | .lastNotRoot => .err "ErrLastNotRoot"
  | .tokenInvalidNow => .err "ErrTokenInvalidNow"
  | .policyNotSatisfied => .err "ErrPolicyNotSatisfied"
  | .hookError => .err "hook"

end Ucan.Tie
