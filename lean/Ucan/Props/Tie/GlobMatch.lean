import Ucan.Gen.Glob
import Ucan.Model.Glob
import Ucan.Props.Tie.Glob
/-! Regenerated-code tie for `glob.Match` (C13): the index loop of the Go source, as translated, decides what the
model's `globMatch` decides on the tokens of the pattern; no index expression panics; the loops terminate within
the fuel `(len(str)+1)·(len(pattern)+2)+1`. -/
set_option linter.unusedSimpArgs false
set_option linter.unusedSectionVars false
set_option linter.unusedVariables false
namespace Ucan.Tie
open Ucan Ucan.GoM

theorem idx_nat {α} (xs : List α) (n : Nat) (h : n < xs.length) : idx xs (n : Int) = .ok xs[n] := by
  simp [idx, h, pure, Except.pure]

theorem scan_done {bp : List Glob.Tok} {bs : Bytes} {b : Bool} (h : Glob.litRun bp bs = .done b) : Glob.scan bp bs = b := by
  rw [Glob.scan]; split <;> simp_all

theorem scan_star {bp ps' : List Glob.Tok} {bs s' : Bytes} (h : Glob.litRun bp bs = .star ps' s') :
    Glob.scan bp bs = Glob.scan ps' s' := by
  rw [Glob.scan]; split <;> simp_all

theorem scan_fail {bp : List Glob.Tok} {c : Byte} {bs : Bytes} (h : Glob.litRun bp (c :: bs) = .fail) :
    Glob.scan bp (c :: bs) = Glob.scan bp bs := by
  rw [Glob.scan]; split <;> simp_all

theorem natCast_succ1 (n : Nat) : ((n : Int) + 1) = ((n + 1 : Nat) : Int) := by omega
theorem natCast_add2 (n : Nat) : ((n : Int) + 2) = ((n + 2 : Nat) : Int) := by omega

/-- the loop of `Match` stops when the string is used up -/
theorem loop1_done (fuel : Nat) (p s : Bytes) (i j : Nat) (mi si : Int) (hj : s.length ≤ j) :
    Gen.glob_Match.loop1 (fuel + 1) p s i j mi si = .ok (.next ((i : Int), (j : Int), mi, si)) := by
  unfold Gen.glob_Match.loop1
  have : ¬ ((j : Int) < (s.length : Int)) := by omega
  simp [len, this, bind, Except.bind, pure, Except.pure]

theorem idx_nat1 {α} (xs : List α) (n : Nat) (h : n + 1 < xs.length) : idx xs ((n : Int) + 1) = .ok xs[n + 1] := by
  rw [natCast_succ1]; exact idx_nat xs (n + 1) h

/-- one iteration of the loop of `Match`, with every bounds check discharged -/
theorem loop1_step (fuel : Nat) (p s : Bytes) (i j : Nat) (mi si : Int) (hj : j < s.length) :
    Gen.glob_Match.loop1 (fuel + 1) p s i j mi si =
      if p[i]? = some 42 then Gen.glob_Match.loop1 fuel p s ((i : Int) + 1) j j i
      else if p[i]? = some 92 ∧ p[i + 1]? = some s[j] then Gen.glob_Match.loop1 fuel p s ((i : Int) + 2) ((j : Int) + 1) mi si
      else if p[i]? ≠ some 92 ∧ p[i]? = some s[j] then Gen.glob_Match.loop1 fuel p s ((i : Int) + 1) ((j : Int) + 1) mi si
      else if si ≠ -1 then Gen.glob_Match.loop1 fuel p s (si + 1) (mi + 1) (mi + 1) si
      else .ok (.ret false) := by
  have hjI : ((j : Int) < (s.length : Int)) := by omega
  rw [Gen.glob_Match.loop1]
  simp only [len, hjI, decide_true, Bool.not_true, Bool.false_eq_true, ↓reduceIte, idx_nat s j hj]
  by_cases hi : i < p.length
  · have hiI : ((i : Int) < (p.length : Int)) := by omega
    have hget : p[i]? = some p[i] := List.getElem?_eq_getElem hi
    simp only [hiI, decide_true, gand, ↓reduceIte, idx_nat p i hi, hget, Option.some.injEq]
    by_cases c1 : p[i] = 42
    · simp [c1, bind, Except.bind, pure, Except.pure]
    · by_cases c2 : p[i] = 92
      · by_cases hi1 : i + 1 < p.length
        · have hi1I : ((i : Int) + 1 < (p.length : Int)) := by omega
          have hget1 : p[i + 1]? = some p[i + 1] := List.getElem?_eq_getElem hi1
          by_cases c3 : p[i + 1] = s[j]
          · simp [c1, c2, c3, hi1I, hget1, idx_nat1 p i hi1, bind, Except.bind, pure, Except.pure, n9242]
          · simp [c1, c2, c3, hi1I, hget1, idx_nat1 p i hi1, bind, Except.bind, pure, Except.pure, n9242]
        · have hi1I : ¬ ((i : Int) + 1 < (p.length : Int)) := by omega
          have hget1 : p[i + 1]? = none := by simp; omega
          simp [c1, c2, hi1I, hget1, bind, Except.bind, pure, Except.pure, n9242]
      · by_cases c3 : p[i] = s[j]
        · have c1' : ¬ s[j] = 42 := c3 ▸ c1
          have c2' : ¬ s[j] = 92 := c3 ▸ c2
          simp [c1, c2, c3, c1', c2', bind, Except.bind, pure, Except.pure]
        · simp [c1, c2, c3, bind, Except.bind, pure, Except.pure]
  · have hiI : ¬ ((i : Int) < (p.length : Int)) := by omega
    have hget : p[i]? = none := by simp; omega
    simp [hiI, gand, hget, bind, Except.bind, pure, Except.pure]

/-! ### tokens of a pattern suffix -/

theorem drop_cons_of_get {α} (p : List α) (i : Nat) (c : α) (h : p[i]? = some c) : p.drop i = c :: p.drop (i + 1) := by
  have hi : i < p.length := by
    rcases Nat.lt_or_ge i p.length with h' | h'
    · exact h'
    · simp [List.getElem?_eq_none h'] at h
  have : p[i] = c := by rw [List.getElem?_eq_getElem hi] at h; exact Option.some.inj h
  rw [List.drop_eq_getElem_cons hi, this]

theorem toks_at_star (p : Bytes) (i : Nat) (ts : List Glob.Tok) (h : p[i]? = some 42)
    (ht : Glob.toks (p.drop i) = some ts) : ∃ ts', ts = .star :: ts' ∧ Glob.toks (p.drop (i + 1)) = some ts' := by
  rw [drop_cons_of_get p i 42 h, Glob.toks.eq_def] at ht
  simp only [Glob.star, ↓reduceIte] at ht
  cases h' : Glob.toks (p.drop (i + 1)) with
  | none => simp [h'] at ht
  | some ts' => simp [h'] at ht; exact ⟨ts', ht.symm, rfl⟩

theorem toks_at_esc (p : Bytes) (i : Nat) (ts : List Glob.Tok) (h : p[i]? = some 92)
    (ht : Glob.toks (p.drop i) = some ts) :
    ∃ d ts', p[i + 1]? = some d ∧ ts = .lit d :: ts' ∧ Glob.toks (p.drop (i + 2)) = some ts' := by
  rw [drop_cons_of_get p i 92 h, Glob.toks.eq_def] at ht
  simp only [Glob.star, Glob.backslash, n9242] at ht
  have h9242 : ¬ ((92 : UInt8) = 42) := by decide
  simp only [h9242, ↓reduceIte] at ht
  cases hd : p.drop (i + 1) with
  | nil => simp [hd] at ht
  | cons d r =>
    have hi1 : i + 1 < p.length := by
      rcases Nat.lt_or_ge (i + 1) p.length with h' | h'
      · exact h'
      · simp [List.drop_eq_nil_of_le h'] at hd
    have hd' := List.drop_eq_getElem_cons hi1
    rw [hd] at hd'
    have hdd : d = p[i + 1] := (List.cons.inj hd').1
    have hr : r = p.drop (i + 2) := (List.cons.inj hd').2
    simp only [hd] at ht
    cases h' : Glob.toks r with
    | none => simp [h'] at ht
    | some ts' =>
      simp [h'] at ht
      refine ⟨d, ts', ?_, ht.symm, ?_⟩
      · rw [hdd]; exact List.getElem?_eq_getElem hi1
      · rw [← hr]; exact h'

theorem toks_at_lit (p : Bytes) (i : Nat) (c : Byte) (ts : List Glob.Tok) (h : p[i]? = some c) (h1 : c ≠ 42) (h2 : c ≠ 92)
    (ht : Glob.toks (p.drop i) = some ts) : ∃ ts', ts = .lit c :: ts' ∧ Glob.toks (p.drop (i + 1)) = some ts' := by
  rw [drop_cons_of_get p i c h, Glob.toks.eq_def] at ht
  simp only [Glob.star, Glob.backslash, h1, h2, ↓reduceIte] at ht
  cases h' : Glob.toks (p.drop (i + 1)) with
  | none => simp [h'] at ht
  | some ts' => simp [h'] at ht; exact ⟨ts', ht.symm, rfl⟩

theorem toks_at_end (p : Bytes) (i : Nat) (ts : List Glob.Tok) (h : p[i]? = none)
    (ht : Glob.toks (p.drop i) = some ts) : ts = [] := by
  have : p.length ≤ i := by
    rcases Nat.lt_or_ge i p.length with h' | h'
    · simp [List.getElem?_eq_getElem h'] at h
    · exact h'
  rw [List.drop_eq_nil_of_le this, Glob.toks.eq_def] at ht
  simpa using ht.symm

/-! ### the matching loop against the model -/

theorem drop_nil_of_le {α} (s : List α) (j : Nat) (h : s.length ≤ j) : s.drop j = [] := List.drop_eq_nil_of_le h

theorem drop_cons_get {α} (s : List α) (j : Nat) (h : j < s.length) : s.drop j = s[j] :: s.drop (j + 1) :=
  List.drop_eq_getElem_cons h

/-- what the loop leaves behind when it ends normally: a pattern position whose remaining tokens are all
stars exactly when the model's answer is `true` -/
def EndsWith (p s : Bytes) (r : GoM (LoopOut Bool (Int × Int × Int × Int))) (R : Bool) : Prop :=
  ∃ (i' : Nat) (mi' si' : Int) (ts' : List Glob.Tok),
    r = .ok (.next ((i' : Int), (s.length : Int), mi', si')) ∧ i' ≤ p.length ∧ Glob.toks (p.drop i') = some ts' ∧
      Glob.allStar ts' = R

/-- star mode: a `*` at pattern position `sn` has been seen, `mn` is where it currently stops absorbing; the
literals compared since then are the ones `litRun` compares. The loop reaches the end of the string with the
model's `scan` answer, within the fuel. -/
theorem loop1_star (p s : Bytes) : ∀ (fuel i j mn sn : Nat) (ts bp : List Glob.Tok),
    i ≤ p.length → j ≤ s.length → mn ≤ j → sn + 1 ≤ p.length →
    Glob.toks (p.drop i) = some ts → Glob.toks (p.drop (sn + 1)) = some bp →
    Glob.litRun bp (s.drop mn) = Glob.litRun ts (s.drop j) →
    (s.length - mn) * (p.length + 2) + (p.length - i) + 1 < fuel →
    EndsWith p s (Gen.glob_Match.loop1 fuel p s i j mn sn) (Glob.scan bp (s.drop mn)) := by
  intro fuel
  induction fuel with
  | zero => intros; omega
  | succ fuel ih =>
    intro i j mn sn ts bp hi hj hmn hsn hts hbp hinv hfuel
    by_cases hjl : j < s.length
    · rw [loop1_step fuel p s i j mn sn hjl]
      have hdj := drop_cons_get s j hjl
      have hmnl : mn < s.length := by omega
      have hdm := drop_cons_get s mn hmnl
      -- arithmetic facts about the fuel bound
      have hW : (s.length - mn) * (p.length + 2) = (s.length - (mn + 1)) * (p.length + 2) + (p.length + 2) := by
        have : s.length - mn = (s.length - (mn + 1)) + 1 := by omega
        rw [this, Nat.succ_mul]
      have hWj : (s.length - j) * (p.length + 2) ≤ (s.length - mn) * (p.length + 2) :=
        Nat.mul_le_mul_right _ (by omega)
      by_cases c1 : p[i]? = some 42
      · -- a new star: the older backtrack point is dropped
        obtain ⟨ts', rfl, hts'⟩ := toks_at_star p i ts c1 hts
        rw [if_pos c1, natCast_succ1]
        have hil : i < p.length := by
          rcases Nat.lt_or_ge i p.length with h | h
          · exact h
          · simp [List.getElem?_eq_none h] at c1
        have hlr : Glob.litRun bp (s.drop mn) = .star ts' (s.drop j) := by
          rw [hinv, hdj]; simp [Glob.litRun]
        rw [scan_star hlr]
        exact ih (i + 1) j j i ts' ts' (by omega) hj (Nat.le_refl j) (by omega) hts' hts' rfl (by omega)
      · rw [if_neg c1]
        by_cases c2 : p[i]? = some 92
        · obtain ⟨d, ts', hd, rfl, hts'⟩ := toks_at_esc p i ts c2 hts
          have hil : i + 1 < p.length := by
            rcases Nat.lt_or_ge (i + 1) p.length with h | h
            · exact h
            · simp [List.getElem?_eq_none h] at hd
          by_cases c3 : d = s[j]
          · -- escaped literal matches
            rw [if_pos ⟨c2, by rw [hd, c3]⟩, natCast_add2, natCast_succ1]
            have hinv' : Glob.litRun bp (s.drop mn) = Glob.litRun ts' (s.drop (j + 1)) := by
              rw [hinv, hdj]; simp [Glob.litRun, c3]
            exact ih (i + 2) (j + 1) mn sn ts' bp (by omega) (by omega) (by omega) hsn hts' hbp hinv' (by omega)
          · -- mismatch: backtrack
            have n1 : ¬ (p[i]? = some 92 ∧ p[i + 1]? = some s[j]) := by
              intro ⟨_, h⟩; rw [hd] at h; exact c3 (Option.some.inj h)
            have n2 : ¬ (p[i]? ≠ some 92 ∧ p[i]? = some s[j]) := fun ⟨h, _⟩ => h c2
            have n3 : ((sn : Int) ≠ -1) := by omega
            rw [if_neg n1, if_neg n2, if_pos n3, natCast_succ1, natCast_succ1]
            have hlr : Glob.litRun bp (s.drop mn) = .fail := by
              rw [hinv, hdj]; simp [Glob.litRun, c3]
            rw [hdm] at hlr ⊢
            rw [scan_fail hlr]
            exact ih (sn + 1) (mn + 1) (mn + 1) sn bp bp hsn (by omega) (Nat.le_refl _) hsn hbp hbp rfl (by omega)
        · cases hpi : p[i]? with
          | none =>
            -- pattern used up, string not: backtrack
            have hnil := toks_at_end p i ts hpi hts
            subst hnil
            have n1 : ¬ (p[i]? = some 92 ∧ p[i + 1]? = some s[j]) := fun ⟨h, _⟩ => c2 h
            have n2 : ¬ (p[i]? ≠ some 92 ∧ p[i]? = some s[j]) := by rw [hpi]; simp
            have n3 : ((sn : Int) ≠ -1) := by omega
            rw [← hpi, if_neg n1, if_neg n2, if_pos n3, natCast_succ1, natCast_succ1]
            have hlr : Glob.litRun bp (s.drop mn) = .fail := by
              rw [hinv, hdj]; simp [Glob.litRun]
            rw [hdm] at hlr ⊢
            rw [scan_fail hlr]
            exact ih (sn + 1) (mn + 1) (mn + 1) sn bp bp hsn (by omega) (Nat.le_refl _) hsn hbp hbp rfl (by omega)
          | some c =>
            have hc42 : c ≠ 42 := fun e => c1 (by rw [hpi, e])
            have hc92 : c ≠ 92 := fun e => c2 (by rw [hpi, e])
            obtain ⟨ts', rfl, hts'⟩ := toks_at_lit p i c ts hpi hc42 hc92 hts
            have hil : i < p.length := by
              rcases Nat.lt_or_ge i p.length with h | h
              · exact h
              · simp [List.getElem?_eq_none h] at hpi
            have n1 : ¬ (p[i]? = some 92 ∧ p[i + 1]? = some s[j]) := fun ⟨h, _⟩ => c2 h
            rw [← hpi, if_neg n1]
            by_cases c3 : c = s[j]
            · rw [if_pos ⟨c2, by rw [hpi, c3]⟩, natCast_succ1, natCast_succ1]
              have hinv' : Glob.litRun bp (s.drop mn) = Glob.litRun ts' (s.drop (j + 1)) := by
                rw [hinv, hdj]; simp [Glob.litRun, c3]
              exact ih (i + 1) (j + 1) mn sn ts' bp (by omega) (by omega) (by omega) hsn hts' hbp hinv' (by omega)
            · have n2 : ¬ (p[i]? ≠ some 92 ∧ p[i]? = some s[j]) := by
                intro ⟨_, h⟩; rw [hpi] at h; exact c3 (Option.some.inj h)
              have n3 : ((sn : Int) ≠ -1) := by omega
              rw [if_neg n2, if_pos n3, natCast_succ1, natCast_succ1]
              have hlr : Glob.litRun bp (s.drop mn) = .fail := by
                rw [hinv, hdj]; simp [Glob.litRun, c3]
              rw [hdm] at hlr ⊢
              rw [scan_fail hlr]
              exact ih (sn + 1) (mn + 1) (mn + 1) sn bp bp hsn (by omega) (Nat.le_refl _) hsn hbp hbp rfl (by omega)
    · -- the string is used up
      have hje : j = s.length := by omega
      subst hje
      rw [loop1_done fuel p s i s.length mn sn (Nat.le_refl _)]
      have hlr : Glob.litRun bp (s.drop mn) = .done (Glob.allStar ts) := by
        rw [hinv, drop_nil_of_le s s.length (Nat.le_refl _)]; cases ts <;> simp [Glob.litRun]
      rw [scan_done hlr]
      exact ⟨i, mn, sn, ts, rfl, hi, hts, rfl⟩

/-- no star seen yet (`starIdx = matchIdx = -1`): the loop either reports `false` where the model's matcher
does, or reaches the end of the string as described by `EndsWith` -/
theorem loop1_nostar (p s : Bytes) : ∀ (fuel i j : Nat) (ts : List Glob.Tok),
    i ≤ p.length → j ≤ s.length → Glob.toks (p.drop i) = some ts →
    s.length * (p.length + 2) + (p.length - i) + 1 < fuel →
    (Gen.glob_Match.loop1 fuel p s i j (-1) (-1) = .ok (.ret false) ∧ Glob.globMatch ts (s.drop j) = false) ∨
      EndsWith p s (Gen.glob_Match.loop1 fuel p s i j (-1) (-1)) (Glob.globMatch ts (s.drop j)) := by
  intro fuel
  induction fuel with
  | zero => intros; omega
  | succ fuel ih =>
    intro i j ts hi hj hts hfuel
    by_cases hjl : j < s.length
    · rw [loop1_step fuel p s i j (-1) (-1) hjl]
      have hdj := drop_cons_get s j hjl
      have hWj : (s.length - j) * (p.length + 2) ≤ s.length * (p.length + 2) := Nat.mul_le_mul_right _ (by omega)
      by_cases c1 : p[i]? = some 42
      · obtain ⟨ts', rfl, hts'⟩ := toks_at_star p i ts c1 hts
        rw [if_pos c1, natCast_succ1]
        have hil : i < p.length := by
          rcases Nat.lt_or_ge i p.length with h | h
          · exact h
          · simp [List.getElem?_eq_none h] at c1
        right
        have hgm : Glob.globMatch (.star :: ts') (s.drop j) = Glob.scan ts' (s.drop j) := by
          rw [hdj]; simp [Glob.globMatch, Glob.litRun]
        rw [hgm]
        exact loop1_star p s fuel (i + 1) j j i ts' ts' (by omega) hj (Nat.le_refl j) (by omega) hts' hts' rfl (by omega)
      · rw [if_neg c1]
        by_cases c2 : p[i]? = some 92
        · obtain ⟨d, ts', hd, rfl, hts'⟩ := toks_at_esc p i ts c2 hts
          have hil : i + 1 < p.length := by
            rcases Nat.lt_or_ge (i + 1) p.length with h | h
            · exact h
            · simp [List.getElem?_eq_none h] at hd
          by_cases c3 : d = s[j]
          · rw [if_pos ⟨c2, by rw [hd, c3]⟩, natCast_add2, natCast_succ1]
            have hgm : Glob.globMatch (.lit d :: ts') (s.drop j) = Glob.globMatch ts' (s.drop (j + 1)) := by
              rw [hdj]; simp [Glob.globMatch, Glob.litRun, c3]
            rw [hgm]
            exact ih (i + 2) (j + 1) ts' (by omega) (by omega) hts' (by omega)
          · have n1 : ¬ (p[i]? = some 92 ∧ p[i + 1]? = some s[j]) := by
              intro ⟨_, h⟩; rw [hd] at h; exact c3 (Option.some.inj h)
            have n2 : ¬ (p[i]? ≠ some 92 ∧ p[i]? = some s[j]) := fun ⟨h, _⟩ => h c2
            rw [if_neg n1, if_neg n2, if_neg (by simp)]
            left
            refine ⟨rfl, ?_⟩
            rw [hdj]; simp [Glob.globMatch, Glob.litRun, c3]
        · cases hpi : p[i]? with
          | none =>
            have hnil := toks_at_end p i ts hpi hts
            subst hnil
            have n1 : ¬ (p[i]? = some 92 ∧ p[i + 1]? = some s[j]) := fun ⟨h, _⟩ => c2 h
            have n2 : ¬ (p[i]? ≠ some 92 ∧ p[i]? = some s[j]) := by rw [hpi]; simp
            rw [← hpi, if_neg n1, if_neg n2, if_neg (by simp)]
            left
            refine ⟨rfl, ?_⟩
            rw [hdj]; simp [Glob.globMatch, Glob.litRun]
          | some c =>
            have hc42 : c ≠ 42 := fun e => c1 (by rw [hpi, e])
            have hc92 : c ≠ 92 := fun e => c2 (by rw [hpi, e])
            obtain ⟨ts', rfl, hts'⟩ := toks_at_lit p i c ts hpi hc42 hc92 hts
            have hil : i < p.length := by
              rcases Nat.lt_or_ge i p.length with h | h
              · exact h
              · simp [List.getElem?_eq_none h] at hpi
            have n1 : ¬ (p[i]? = some 92 ∧ p[i + 1]? = some s[j]) := fun ⟨h, _⟩ => c2 h
            rw [← hpi, if_neg n1]
            by_cases c3 : c = s[j]
            · rw [if_pos ⟨c2, by rw [hpi, c3]⟩, natCast_succ1, natCast_succ1]
              have hgm : Glob.globMatch (.lit c :: ts') (s.drop j) = Glob.globMatch ts' (s.drop (j + 1)) := by
                rw [hdj]; simp [Glob.globMatch, Glob.litRun, c3]
              rw [hgm]
              exact ih (i + 1) (j + 1) ts' (by omega) (by omega) hts' (by omega)
            · have n2 : ¬ (p[i]? ≠ some 92 ∧ p[i]? = some s[j]) := by
                intro ⟨_, h⟩; rw [hpi] at h; exact c3 (Option.some.inj h)
              rw [if_neg n2, if_neg (by simp)]
              left
              refine ⟨rfl, ?_⟩
              rw [hdj]; simp [Glob.globMatch, Glob.litRun, c3]
    · have hje : j = s.length := by omega
      subst hje
      rw [loop1_done fuel p s i s.length (-1) (-1) (Nat.le_refl _)]
      right
      have hgm : Glob.globMatch ts (s.drop s.length) = Glob.allStar ts := by
        rw [drop_nil_of_le s s.length (Nat.le_refl _)]; cases ts <;> simp [Glob.globMatch, Glob.litRun]
      rw [hgm]
      exact ⟨i, -1, -1, ts, rfl, hi, hts, rfl⟩

/-- the trailing loop `for i < len(pattern) && pattern[i] == '*' { i++ }` followed by `i == len(pattern)` -/
theorem loop2_spec (p s : Bytes) (j mi si : Int) : ∀ (fuel i : Nat) (ts : List Glob.Tok),
    i ≤ p.length → Glob.toks (p.drop i) = some ts → p.length - i < fuel →
    ∃ i' : Nat, Gen.glob_Match.loop2 fuel p s j mi si i = .ok (.next (i' : Int)) ∧
      (((i' : Int) == (p.length : Int)) = Glob.allStar ts) := by
  intro fuel
  induction fuel with
  | zero => intros; omega
  | succ fuel ih =>
    intro i ts hi hts hfuel
    rw [Gen.glob_Match.loop2]
    by_cases hil : i < p.length
    · have hiI : ((i : Int) < (p.length : Int)) := by omega
      have hget : p[i]? = some p[i] := List.getElem?_eq_getElem hil
      by_cases c1 : p[i] = 42
      · obtain ⟨ts', rfl, hts'⟩ := toks_at_star p i ts (by rw [hget, c1]) hts
        obtain ⟨i', h1, h2⟩ := ih (i + 1) ts' (by omega) hts' (by omega)
        refine ⟨i', ?_, by simpa [Glob.allStar] using h2⟩
        simp only [len, hiI, decide_true, gand, ↓reduceIte, idx_nat p i hil, c1, bind, Except.bind, pure, Except.pure,
          beq_self_eq_true, Bool.not_true, Bool.false_eq_true, natCast_succ1]
        exact h1
      · refine ⟨i, ?_, ?_⟩
        · simp [len, hiI, gand, idx_nat p i hil, c1, bind, Except.bind, pure, Except.pure]
        · have hne : ¬ ((i : Int) = (p.length : Int)) := by omega
          by_cases c2 : p[i] = 92
          · obtain ⟨d, ts', _, rfl, _⟩ := toks_at_esc p i ts (by rw [hget, c2]) hts
            simp [Glob.allStar, hne]
          · obtain ⟨ts', rfl, _⟩ := toks_at_lit p i p[i] ts hget c1 c2 hts
            simp [Glob.allStar, hne]
    · have hie : i = p.length := by omega
      subst hie
      have hnil := toks_at_end p p.length ts (by simp) hts
      subst hnil
      refine ⟨p.length, ?_, by simp [Glob.allStar]⟩
      simp [len, gand, bind, Except.bind, pure, Except.pure]

/-- `glob.Match`, regenerated from the Go source, returns — without panicking and within its fuel — what the model's
matcher `globMatch` returns on the tokens of the pattern (the function `C13_globMatch_iff_Lang` is about) -/
theorem glob_Match_eq (p s : Bytes) (ts : List Glob.Tok) (h : Glob.toks p = some ts) :
    Gen.glob_Match p s = .ok (Glob.globMatch ts s) := by
  unfold Gen.glob_Match
  have hA := loop1_nostar p s ((s.length + 1) * (p.length + 2) + 1) 0 0 ts (by omega) (by omega) (by simpa using h)
    (by rw [Nat.succ_mul]; omega)
  simp only [Int.natCast_zero, List.drop_zero] at hA
  have e1 : (-(1 : Int)) = -1 := rfl
  rcases hA with ⟨hl, hr⟩ | ⟨i', mi', si', ts', hl, hi', hts', hall⟩
  · simp only [bind, Except.bind, hl, pure, Except.pure, hr]
  · obtain ⟨i'', h2, h3⟩ := loop2_spec p s (s.length : Int) mi' si' (p.length + 1) i' ts' hi' hts' (by omega)
    simp only [bind, Except.bind, hl, h2, pure, Except.pure, len, h3, hall]

end Ucan.Tie
