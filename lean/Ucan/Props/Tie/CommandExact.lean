import Ucan.Props.Tie.Command
/-! (Not registered for any property.) The exact form of the `command.Parse` tie: equality with the model INCLUDING the error class,
i.e. the order of the three tests as the code has it today. -/
set_option linter.unusedSimpArgs false
namespace Ucan.Tie
open Ucan Ucan.GoM

/-- `command.Parse`, regenerated, is the model's `parse` -/
theorem Command_Parse_eq (lower : Bytes → Bytes) (s : Bytes) :
    Gen.Command_Parse lower s = (Command.parse lower s).mapError cmdErr := by
  unfold Gen.Command_Parse Command.parse
  simp only [isPrefixOf_singleton, isSuffixOf_singleton, len, Command.slash]
  by_cases h1 : s.head? = some 47
  · by_cases h2 : s.length > 1 ∧ s.getLast? = some 47
    · have : (1 : Int) < s.length := by omega
      simp [h1, h2, this, Except.mapError, cmdErr, throw, throwThe, MonadExceptOf.throw, bind, Except.bind]
    · by_cases h3 : s = lower s
      · have hh : ¬ ((1 : Int) < s.length ∧ s.getLast? = some 47) := by
          intro ⟨a, b⟩; exact h2 ⟨by omega, b⟩
        simp [h1, h2, ← h3, hh, Except.mapError, pure, Except.pure]
      · have hh : ¬ ((1 : Int) < s.length ∧ s.getLast? = some 47) := by
          intro ⟨a, b⟩; exact h2 ⟨by omega, b⟩
        simp [h1, h2, h3, hh, Except.mapError, cmdErr, throw, throwThe, MonadExceptOf.throw, bind, Except.bind]
  · simp [h1, Except.mapError, cmdErr, throw, throwThe, MonadExceptOf.throw, bind, Except.bind]

end Ucan.Tie
