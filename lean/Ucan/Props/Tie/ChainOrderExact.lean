import Ucan.Gen.ChainShell
/-! (Not registered for any property: the exact ORDER is not part of one — `ChainOrder` carries what the properties need.)
Regenerated-code statement of the ORDER of the stages of `executionAllowed` (anchored by C01, C03, C04, C05), stated on the
body of that one function alone: every method it calls is a parameter of this translation (`ChainShell`), so the theorem
depends on no other function of the library and on no other tie. The proofs are loaded first and a loading error ends
the check; then `verifyProofs`, then `verifyTimeBound`, then `verifyArgs`, each on the delegations that were loaded (and
the arguments that were handed in); the first failing stage decides; nil only when all four return nil. What the
stages themselves do is the subject of `ChainProofs`, `ChainTime` and `ChainArgs`; `ChainAllowed` composes them. -/
namespace Ucan.Tie
open Ucan Ucan.GoM

variable {D C S L A : Type} [DecidableEq D]

theorem Inv_executionAllowed_order
    (extLoad : Gen.InvTok D C A → L → GoM (List (Gen.DlgTok D S)))
    (extProofs extTime : Gen.InvTok D C A → List (Gen.DlgTok D S) → GoM Unit)
    (extArgs : Gen.InvTok D C A → List (Gen.DlgTok D S) → A → GoM Unit)
    (g : Gen.InvTok D C A) (loader : L) (a : A) :
    Gen.Inv_executionAllowed_shell extLoad extProofs extTime extArgs g loader a =
      (extLoad g loader >>= fun ds =>
        extProofs g ds >>= fun _ =>
        extTime g ds >>= fun _ =>
        extArgs g ds a) := by
  unfold Gen.Inv_executionAllowed_shell
  cases extLoad g loader with
  | error e => rfl
  | ok ds =>
    simp only [bind, Except.bind, pure, Except.pure]
    cases extProofs g ds with
    | error e => rfl
    | ok u =>
      cases extTime g ds with
      | error e => rfl
      | ok u => cases extArgs g ds a <;> rfl

end Ucan.Tie
