import Ucan.Gen.ContainerEntry
/-!
Regenerated-code tie for the six one-line entry points of `pkg/container/reader.go` that sit in front of the two real readers
(`FromCborReader`, `FromCarReader`, parameters here; `bytes.NewReader` and `base64.NewDecoder` are parameters as well): the
byte-slice variants ARE the stream variants on a reader over those bytes, and the base64 variants ARE the plain ones behind a
standard-alphabet, padded base64 decoder (C17: the four serialisations; C18: byte-slice and stream variants are interchangeable —
nothing is bounded, filtered or buffered on one path and not on the other).
-/
namespace Ucan.Tie
open Ucan Ucan.GoM

variable {Rdr Ctn : Type}

theorem bind_pure_id {α} (m : GoM α) : (do let x ← m; pure x) = m := by
  cases m <;> rfl

theorem FromCbor_eq (cborR : Rdr → GoM Ctn) (rd : Bytes → Rdr) (data : Bytes) :
    Gen.FromCbor cborR rd data = cborR (rd data) := by
  unfold Gen.FromCbor; exact bind_pure_id _

theorem FromCar_eq (carR : Rdr → GoM Ctn) (rd : Bytes → Rdr) (data : Bytes) :
    Gen.FromCar carR rd data = carR (rd data) := by
  unfold Gen.FromCar; exact bind_pure_id _

theorem FromCborBase64Reader_eq (cborR : Rdr → GoM Ctn) (b64 : B64Enc → Rdr → Rdr) (r : Rdr) :
    Gen.FromCborBase64Reader cborR b64 r = cborR (b64 .std r) := by
  unfold Gen.FromCborBase64Reader; exact bind_pure_id _

theorem FromCarBase64Reader_eq (carR : Rdr → GoM Ctn) (b64 : B64Enc → Rdr → Rdr) (r : Rdr) :
    Gen.FromCarBase64Reader carR b64 r = carR (b64 .std r) := by
  unfold Gen.FromCarBase64Reader; exact bind_pure_id _

theorem FromCborBase64_eq (cborR : Rdr → GoM Ctn) (rd : Bytes → Rdr) (b64 : B64Enc → Rdr → Rdr) (data : Bytes) :
    Gen.FromCborBase64 cborR rd b64 data = cborR (b64 .std (rd data)) := by
  unfold Gen.FromCborBase64; rw [FromCborBase64Reader_eq]; try (exact bind_pure_id _)

theorem FromCarBase64_eq (carR : Rdr → GoM Ctn) (rd : Bytes → Rdr) (b64 : B64Enc → Rdr → Rdr) (data : Bytes) :
    Gen.FromCarBase64 carR rd b64 data = carR (b64 .std (rd data)) := by
  unfold Gen.FromCarBase64; rw [FromCarBase64Reader_eq]; try (exact bind_pure_id _)

/-- byte-slice and stream variants are interchangeable: reading the bytes through a reader over them gives the same outcome -/
theorem bytes_and_stream_variants_agree (cborR carR : Rdr → GoM Ctn) (rd : Bytes → Rdr) (b64 : B64Enc → Rdr → Rdr) (data : Bytes) :
    Gen.FromCbor cborR rd data = cborR (rd data) ∧ Gen.FromCar carR rd data = carR (rd data) ∧
    Gen.FromCborBase64 cborR rd b64 data = Gen.FromCborBase64Reader cborR b64 (rd data) ∧
    Gen.FromCarBase64 carR rd b64 data = Gen.FromCarBase64Reader carR b64 (rd data) := by
  refine ⟨FromCbor_eq _ _ _, FromCar_eq _ _ _, ?_, ?_⟩
  · rw [FromCborBase64_eq, FromCborBase64Reader_eq]
  · rw [FromCarBase64_eq, FromCarBase64Reader_eq]

end Ucan.Tie
