import Ucan.Gen.ChainLoad
import Ucan.Props.Tie.ChainLoad
import Ucan.Props.Tie.ChainDefs
/-! (Not registered for any property.) Exact form: WHICH error a missing delegation gives, and that a panic of the loader is not
swallowed.
Regenerated-code tie for `loadProofs` (C01 "all referenced delegations must be available", C05): the slice that is made
with the length of the proof list and filled at the key of the `range` loop (translated as appending in order — `go2lean`
checks that the slice is written at the range key only and otherwise just returned) holds the loader's delegation for every
proof CID, in proof order; the first CID the loader has no delegation for ends the function with `ErrMissingDelegation`,
whatever error the loader reported. `Loader.GetDelegation` is a parameter. -/
set_option linter.unusedSimpArgs false
set_option linter.unusedSectionVars false
namespace Ucan.Tie
open Ucan Ucan.GoM

variable {D C S A L : Type} [DecidableEq D]

theorem loadProofs_loop (extGet : L → C → GoM (Gen.DlgTok D S)) (loader : L) (ldG : C → Option (Gen.DlgTok D S))
    (hl : LoaderIs extGet loader ldG) (g : Gen.InvTok D C A) (fuel k : Nat) (hf : g.proof.length - k < fuel)
    (hk : k ≤ g.proof.length) (res : List (Gen.DlgTok D S)) :
    Gen.Inv_loadProofs.loop1 extGet fuel g loader (k : Int) res =
      match (g.proof.drop k).mapM ldG with
      | some ds => .ok (.next ((g.proof.length : Int), res ++ ds))
      | none => .error (.err "ErrMissingDelegation") := by
  induction fuel generalizing k res with
  | zero => omega
  | succ fuel ih =>
    unfold Gen.Inv_loadProofs.loop1
    by_cases hlt : k < g.proof.length
    · have hd : g.proof.drop k = g.proof[k] :: g.proof.drop (k + 1) := List.drop_eq_getElem_cons hlt
      have h1 : ((k : Int) < (g.proof.length : Int)) := by omega
      have h2 : ((k : Int) + 1) = ((k + 1 : Nat) : Int) := by omega
      have hidx : idx g.proof (k : Int) = .ok g.proof[k] := by simp [idx, hlt, pure, Except.pure]
      rw [hd, List.mapM_cons]
      have hc := hl g.proof[k]
      cases hg : ldG g.proof[k] with
      | none =>
        rw [hg] at hc
        obtain ⟨msg, hm⟩ := hc
        simp [len, h1, hidx, hm, replaceErr, bind, Except.bind, pure, Except.pure]
      | some d =>
        rw [hg] at hc
        simp only [len, h1, decide_true, Bool.not_true, Bool.false_eq_true, ↓reduceIte, hidx, hc, replaceErr, bind,
          Except.bind, pure, Except.pure, h2, Option.bind_eq_bind, Option.bind_some]
        rw [ih (k + 1) (by omega) (by omega)]
        cases (g.proof.drop (k + 1)).mapM ldG <;> simp [List.append_assoc]
    · have : k = g.proof.length := by omega
      subst this
      have h1 : ¬ (((g.proof.length : Nat) : Int) < (g.proof.length : Int)) := by omega
      simp [len, h1, bind, Except.bind, pure, Except.pure]

/-- `loadProofs`, regenerated: every proof CID is looked up, in order; one delegation per CID or `ErrMissingDelegation` -/
theorem Inv_loadProofs_eq (extGet : L → C → GoM (Gen.DlgTok D S)) (loader : L) (ldG : C → Option (Gen.DlgTok D S))
    (hl : LoaderIs extGet loader ldG) (g : Gen.InvTok D C A) :
    Gen.Inv_loadProofs extGet g loader =
      match g.proof.mapM ldG with
      | some ds => .ok ds
      | none => .error (chainErr .missingDelegation) := by
  unfold Gen.Inv_loadProofs
  have := loadProofs_loop extGet loader ldG hl g (g.proof.length + 1) 0 (by omega) (by omega) []
  simp only [Int.natCast_zero, List.drop_zero, List.nil_append] at this
  simp only [bind, Except.bind, pure, Except.pure, this]
  cases g.proof.mapM ldG <;> simp [chainErr]

/-- a panic of the loader is not turned into `ErrMissingDelegation`: it goes on unwinding -/
theorem Inv_loadProofs_panic (extGet : L → C → GoM (Gen.DlgTok D S)) (loader : L) (g : Gen.InvTok D C A) (c : C) (cs : List C)
    (msg : String) (hp : g.proof = c :: cs) (hpanic : extGet loader c = .error (.panic msg)) :
    Gen.Inv_loadProofs extGet g loader = .error (.panic msg) := by
  unfold Gen.Inv_loadProofs
  simp only [hp, List.length_cons]
  unfold Gen.Inv_loadProofs.loop1
  have h1 : ((0 : Int) < ((cs.length + 1 : Nat) : Int)) := by omega
  simp [len, hp, h1, idx, hpanic, replaceErr, bind, Except.bind, pure, Except.pure]

end Ucan.Tie
