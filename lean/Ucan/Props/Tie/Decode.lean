import Ucan.Gen.Decode
import Ucan.Props.Tie.Command
import Ucan.Props.Tie.CommandApi
import Ucan.Props.Tie.ParseTime
/-!
Regenerated-code tie for the two `tokenFromModel` functions (token/delegation/delegation.go, token/invocation/invocation.go): the
step between the typed payload that bindnode produces and the token a decoder returns (C10, C07, C06). The struct-typed local
`tkn` is replaced by one local per field before translation (`harness/cmd/go2lean/structlocal.go`); `did.Parse`,
`parse.OptionalDID`, `policy.FromIPLD`, `meta.NewMeta`, `Args.Validate` and the two `validate()` methods are PARAMETERS, so the
theorems hold for every behaviour of these; `command.Parse` and `parse.OptionalTimestamp` are the regenerated functions.

What is proved, for every payload and every instance of the parameters:
* a token comes out exactly when every field parser accepts, the nonce is not empty, (invocation) the arguments validate, and
  `validate()` accepts the assembled token — and then each field of the token IS the parsed value of the corresponding payload
  field (nothing is swapped, defaulted or dropped; absent metadata becomes a fresh `Meta`);
* in particular: the command of a decoded token was accepted by `command.Parse` (hence by the model's `parse`, `Tie/Command`),
  its time bounds went through `OptionalTimestamp` (hence lie within ±(2^53−1), `Tie/ParseTime`), its nonce is non-empty, and
  `validate()` was asked about exactly the token that is returned.
The statements do not depend on the order in which the function parses the fields.
-/
set_option linter.unusedSimpArgs false
set_option linter.unusedSectionVars false
namespace Ucan.Tie
open Ucan Ucan.GoM

variable {D C S A N M : Type} [DecidableEq D]

/-- the token `delegation.tokenFromModel` assembles from parsed field values -/
def dlgOf (m : Gen.DlgModel N M) (newMeta : M) (iss aud sub : D) (cmd : Bytes) (pol : List (Option S))
    (nbf exp : Option Int) : Gen.DlgDec D S M :=
  { issuer := iss, audience := aud, subject := sub, command := cmd, policy := pol, nonce := m.Nonce,
    meta_ := some (m.Meta.getD newMeta), notBefore := nbf, expiration := exp }

/-- the record the regenerated code builds (its nine locals) -/
def dlgMk (iss aud sub : D) (cmd : Bytes) (pol : List (Option S)) (nonce : Bytes) (mt : Option M) (nbf exp : Option Int) :
    Gen.DlgDec D S M :=
  { issuer := iss, audience := aud, subject := sub, command := cmd, policy := pol, nonce := nonce, meta_ := mt,
    notBefore := nbf, expiration := exp }

/-- a bound that comes out of `OptionalTimestamp` lies within ±(2^53−1) (and is the bound that went in) -/
theorem OptionalTimestamp_some_bounds (sec : Option Int) (b : Int) (r : Option Int) (h : Gen.OptionalTimestamp sec = .ok r)
    (hb : r = some b) : Facts.minInt53 ≤ b ∧ b ≤ Facts.maxInt53 := by
  rw [OptionalTimestamp_eq] at h
  cases sec with
  | none => simp only at h; cases h; cases hb
  | some i =>
    simp only at h
    split at h
    · rename_i hi
      cases h; cases hb; exact hi
    · cases h

theorem ok_bind {α β : Type} (a : α) (f : α → GoM β) : (Except.ok a >>= f) = f a := rfl

theorem meta_default (o : Option M) (newMeta : M) :
    (if (!(notNil o)) = true then some newMeta else o) = some (o.getD newMeta) := by
  cases o <;> simp [notNil]

/-- `delegation.tokenFromModel`, regenerated: which payloads give a token, and which token -/
theorem Dlg_tokenFromModel_ok_iff (lower : Bytes → Bytes) (didParse : Bytes → GoM D) (optDID : Option Bytes → GoM D)
    (polFromIPLD : N → GoM (List (Option S))) (newMeta : M) (validate : Gen.DlgDec D S M → GoM Unit)
    (m : Gen.DlgModel N M) (t : Gen.DlgDec D S M) :
    Gen.Dlg_tokenFromModel lower didParse optDID polFromIPLD newMeta validate m = .ok t ↔
      ∃ iss aud sub cmd pol nbf exp,
        didParse m.Iss = .ok iss ∧ didParse m.Aud = .ok aud ∧ optDID m.Sub = .ok sub ∧
        Gen.Command_Parse lower m.Cmd = .ok cmd ∧ polFromIPLD m.Pol = .ok pol ∧ m.Nonce ≠ [] ∧
        Gen.OptionalTimestamp m.Nbf = .ok nbf ∧ Gen.OptionalTimestamp m.Exp = .ok exp ∧
        t = dlgOf m newMeta iss aud sub cmd pol nbf exp ∧ validate t = .ok () := by
  unfold Gen.Dlg_tokenFromModel
  have hlen : ((len m.Nonce == (0 : Int)) = true) ↔ m.Nonce = [] := by
    simp only [len, beq_iff_eq]
    constructor
    · intro h; exact List.eq_nil_of_length_eq_zero (by omega)
    · intro h; simp [h]
  cases h1 : didParse m.Iss with
  | error e => simp [bind, Except.bind, h1]
  | ok iss =>
  cases h2 : didParse m.Aud with
  | error e => simp [bind, Except.bind, h1, h2]
  | ok aud =>
  cases h3 : optDID m.Sub with
  | error e => simp [bind, Except.bind, h1, h2, h3]
  | ok sub =>
  cases h4 : Gen.Command_Parse lower m.Cmd with
  | error e => simp [bind, Except.bind, h1, h2, h3, h4]
  | ok cmd =>
  cases h5 : polFromIPLD m.Pol with
  | error e => simp [bind, Except.bind, h1, h2, h3, h4, h5]
  | ok pol =>
  by_cases hn : m.Nonce = []
  · simp [bind, Except.bind, h1, h2, h3, h4, h5, hn, len, throw, throwThe, MonadExceptOf.throw]
  · have hn' : ¬ ((len m.Nonce == (0 : Int)) = true) := fun h => hn (hlen.1 h)
    cases h6 : Gen.OptionalTimestamp m.Nbf with
    | error e => simp [bind, Except.bind, h1, h2, h3, h4, h5, hn', h6, pure, Except.pure]
    | ok nbf =>
    cases h7 : Gen.OptionalTimestamp m.Exp with
    | error e => simp [bind, Except.bind, h1, h2, h3, h4, h5, hn', h6, h7, pure, Except.pure]
    | ok exp =>
    have rhs : (∃ iss' aud' sub' cmd' pol' nbf' exp',
        (Except.ok iss : GoM D) = .ok iss' ∧ (Except.ok aud : GoM D) = .ok aud' ∧ (Except.ok sub : GoM D) = .ok sub' ∧
        (Except.ok cmd : GoM Bytes) = .ok cmd' ∧ (Except.ok pol : GoM (List (Option S))) = .ok pol' ∧ m.Nonce ≠ [] ∧
        (Except.ok nbf : GoM (Option Int)) = .ok nbf' ∧ (Except.ok exp : GoM (Option Int)) = .ok exp' ∧
        t = dlgOf m newMeta iss' aud' sub' cmd' pol' nbf' exp' ∧ validate t = .ok ()) ↔
        (t = dlgOf m newMeta iss aud sub cmd pol nbf exp ∧ validate t = .ok ()) := by
      constructor
      · rintro ⟨_, _, _, _, _, _, _, h1', h2', h3', h4', h5', _, h6', h7', ht, hv⟩
        cases h1'; cases h2'; cases h3'; cases h4'; cases h5'; cases h6'; cases h7'
        exact ⟨ht, hv⟩
      · rintro ⟨ht, hv⟩
        exact ⟨iss, aud, sub, cmd, pol, nbf, exp, rfl, rfl, rfl, rfl, rfl, hn, rfl, rfl, ht, hv⟩
    have key : ∀ mt : Option M, mt = some (m.Meta.getD newMeta) →
        ((validate (dlgMk iss aud sub cmd pol m.Nonce mt nbf exp) >>= fun _ =>
            (Except.ok (dlgMk iss aud sub cmd pol m.Nonce mt nbf exp) : GoM (Gen.DlgDec D S M))) = Except.ok t ↔
          (t = dlgOf m newMeta iss aud sub cmd pol nbf exp ∧ validate t = .ok ())) := by
      intro mt hmt
      subst hmt
      cases h8 : validate (dlgOf m newMeta iss aud sub cmd pol nbf exp) with
      | error e =>
        simp only [dlgOf] at h8
        simp only [dlgMk, h8, bind, Except.bind]
        constructor
        · intro h; cases h
        · rintro ⟨rfl, hv⟩
          simp only [dlgOf] at hv
          rw [h8] at hv; cases hv
      | ok u =>
        simp only [dlgOf] at h8
        simp only [dlgMk, h8, bind, Except.bind, Except.ok.injEq]
        constructor
        · intro h
          refine ⟨h.symm, ?_⟩
          rw [← h]; exact h8
        · rintro ⟨rfl, _⟩
          rfl
    simp only [h1, h2, h3, h4, h5, hn', h6, h7, ok_bind, pure_bind, Bool.false_eq_true, ↓reduceIte]
    rw [rhs]
    cases hm : m.Meta with
    | none =>
      simp only [notNil, Option.isSome_none, Bool.not_false, ↓reduceIte, pure_bind, ok_bind]
      exact key (some newMeta) (by simp [hm])
    | some mm =>
      simp only [notNil, Option.isSome_some, Bool.not_true, Bool.false_eq_true, ↓reduceIte, pure_bind, ok_bind]
      exact key (some mm) (by simp [hm])

/-- C10 on the regenerated delegation decoder: whatever comes out has a command the model's `parse` accepts, time bounds within
±(2^53−1), a non-empty nonce, and passed `validate()` -/
theorem Dlg_tokenFromModel_wellformed (lower : Bytes → Bytes) (didParse : Bytes → GoM D) (optDID : Option Bytes → GoM D)
    (polFromIPLD : N → GoM (List (Option S))) (newMeta : M) (validate : Gen.DlgDec D S M → GoM Unit)
    (m : Gen.DlgModel N M) (t : Gen.DlgDec D S M)
    (h : Gen.Dlg_tokenFromModel lower didParse optDID polFromIPLD newMeta validate m = .ok t) :
    Command.parse lower m.Cmd = .ok t.command ∧ t.nonce = m.Nonce ∧ t.nonce ≠ [] ∧ validate t = .ok () ∧
      (∀ b, t.notBefore = some b → Facts.minInt53 ≤ b ∧ b ≤ Facts.maxInt53) ∧
      (∀ b, t.expiration = some b → Facts.minInt53 ≤ b ∧ b ≤ Facts.maxInt53) ∧ t.meta_.isSome := by
  obtain ⟨iss, aud, sub, cmd, pol, nbf, exp, _, _, _, h4, _, hn, h6, h7, rfl, hv⟩ :=
    (Dlg_tokenFromModel_ok_iff lower didParse optDID polFromIPLD newMeta validate m t).1 h
  refine ⟨(Command_Parse_ok_iff lower m.Cmd cmd).1 h4, rfl, hn, hv, ?_, ?_, rfl⟩
  · intro b hb
    exact OptionalTimestamp_some_bounds m.Nbf b nbf h6 hb
  · intro b hb
    exact OptionalTimestamp_some_bounds m.Exp b exp h7 hb

/-! ### invocation.tokenFromModel -/

/-- the token `invocation.tokenFromModel` assembles from parsed field values -/
def invOf (m : Gen.InvModel C A M) (newMeta : M) (iss sub aud : D) (cmd : Bytes) (exp iat : Option Int) : Gen.InvDec D C A M :=
  { issuer := iss, subject := sub, audience := aud, command := cmd, arguments := m.Args, proof := m.Prf,
    meta_ := some (m.Meta.getD newMeta), nonce := m.Nonce, expiration := exp, invokedAt := iat, cause := m.Cause }

def invMk (m : Gen.InvModel C A M) (iss sub aud : D) (cmd : Bytes) (mt : Option M) (exp iat : Option Int) : Gen.InvDec D C A M :=
  { issuer := iss, subject := sub, audience := aud, command := cmd, arguments := m.Args, proof := m.Prf,
    meta_ := mt, nonce := m.Nonce, expiration := exp, invokedAt := iat, cause := m.Cause }

/-- `invocation.tokenFromModel`, regenerated: which payloads give a token, and which token -/
theorem Inv_tokenFromModel_ok_iff (lower : Bytes → Bytes) (didParse : Bytes → GoM D) (optDID : Option Bytes → GoM D)
    (newMeta : M) (validate : Gen.InvDec D C A M → GoM Unit) (argsValidate : A → GoM Unit)
    (m : Gen.InvModel C A M) (t : Gen.InvDec D C A M) :
    Gen.Inv_tokenFromModel lower didParse optDID newMeta validate argsValidate m = .ok t ↔
      ∃ iss sub aud cmd exp iat,
        didParse m.Iss = .ok iss ∧ didParse m.Sub = .ok sub ∧ optDID m.Aud = .ok aud ∧
        Gen.Command_Parse lower m.Cmd = .ok cmd ∧ m.Nonce ≠ [] ∧ argsValidate m.Args = .ok () ∧
        Gen.OptionalTimestamp m.Exp = .ok exp ∧ Gen.OptionalTimestamp m.Iat = .ok iat ∧
        t = invOf m newMeta iss sub aud cmd exp iat ∧ validate t = .ok () := by
  unfold Gen.Inv_tokenFromModel
  have hlen : ((len m.Nonce == (0 : Int)) = true) ↔ m.Nonce = [] := by
    simp only [len, beq_iff_eq]
    constructor
    · intro h; exact List.eq_nil_of_length_eq_zero (by omega)
    · intro h; simp [h]
  cases h1 : didParse m.Iss with
  | error e => simp [bind, Except.bind, h1]
  | ok iss =>
  cases h2 : didParse m.Sub with
  | error e => simp [bind, Except.bind, h1, h2]
  | ok sub =>
  cases h3 : optDID m.Aud with
  | error e => simp [bind, Except.bind, h1, h2, h3]
  | ok aud =>
  cases h4 : Gen.Command_Parse lower m.Cmd with
  | error e => simp [bind, Except.bind, h1, h2, h3, h4]
  | ok cmd =>
  by_cases hn : m.Nonce = []
  · simp [bind, Except.bind, h1, h2, h3, h4, hn, len, throw, throwThe, MonadExceptOf.throw]
  · have hn' : ¬ ((len m.Nonce == (0 : Int)) = true) := fun h => hn (hlen.1 h)
    cases h5 : argsValidate m.Args with
    | error e => simp [bind, Except.bind, h1, h2, h3, h4, hn', h5, pure, Except.pure]
    | ok u5 =>
    cases h6 : Gen.OptionalTimestamp m.Exp with
    | error e =>
      cases hm : m.Meta <;> simp [bind, Except.bind, h1, h2, h3, h4, hn', h5, h6, hm, notNil, pure, Except.pure]
    | ok exp =>
    cases h7 : Gen.OptionalTimestamp m.Iat with
    | error e =>
      cases hm : m.Meta <;> simp [bind, Except.bind, h1, h2, h3, h4, hn', h5, h6, h7, hm, notNil, pure, Except.pure]
    | ok iat =>
    have rhs : (∃ iss' sub' aud' cmd' exp' iat',
        (Except.ok iss : GoM D) = .ok iss' ∧ (Except.ok sub : GoM D) = .ok sub' ∧ (Except.ok aud : GoM D) = .ok aud' ∧
        (Except.ok cmd : GoM Bytes) = .ok cmd' ∧ m.Nonce ≠ [] ∧ True ∧
        (Except.ok exp : GoM (Option Int)) = .ok exp' ∧ (Except.ok iat : GoM (Option Int)) = .ok iat' ∧
        t = invOf m newMeta iss' sub' aud' cmd' exp' iat' ∧ validate t = .ok ()) ↔
        (t = invOf m newMeta iss sub aud cmd exp iat ∧ validate t = .ok ()) := by
      constructor
      · rintro ⟨_, _, _, _, _, _, h1', h2', h3', h4', _, _, h6', h7', ht, hv⟩
        cases h1'; cases h2'; cases h3'; cases h4'; cases h6'; cases h7'
        exact ⟨ht, hv⟩
      · rintro ⟨ht, hv⟩
        exact ⟨iss, sub, aud, cmd, exp, iat, rfl, rfl, rfl, rfl, hn, trivial, rfl, rfl, ht, hv⟩
    have key : ∀ mt : Option M, mt = some (m.Meta.getD newMeta) →
        ((validate (invMk m iss sub aud cmd mt exp iat) >>= fun _ =>
            (Except.ok (invMk m iss sub aud cmd mt exp iat) : GoM (Gen.InvDec D C A M))) = Except.ok t ↔
          (t = invOf m newMeta iss sub aud cmd exp iat ∧ validate t = .ok ())) := by
      intro mt hmt
      subst hmt
      cases h8 : validate (invOf m newMeta iss sub aud cmd exp iat) with
      | error e =>
        simp only [invOf] at h8
        simp only [invMk, h8, bind, Except.bind]
        constructor
        · intro h; cases h
        · rintro ⟨rfl, hv⟩
          simp only [invOf] at hv
          rw [h8] at hv; cases hv
      | ok u =>
        simp only [invOf] at h8
        simp only [invMk, h8, bind, Except.bind, Except.ok.injEq]
        constructor
        · intro h
          refine ⟨h.symm, ?_⟩
          rw [← h]; exact h8
        · rintro ⟨rfl, _⟩
          rfl
    simp only [h1, h2, h3, h4, hn', h5, h6, h7, ok_bind, pure_bind, Bool.false_eq_true, ↓reduceIte]
    rw [rhs]
    cases hm : m.Meta with
    | none =>
      simp only [notNil, Option.isSome_none, Bool.not_false, ↓reduceIte, pure_bind, ok_bind, h6, h7]
      exact key (some newMeta) (by simp [hm])
    | some mm =>
      simp only [notNil, Option.isSome_some, Bool.not_true, Bool.false_eq_true, ↓reduceIte, pure_bind, ok_bind, h6, h7]
      exact key (some mm) (by simp [hm])

/-- C10 on the regenerated invocation decoder -/
theorem Inv_tokenFromModel_wellformed (lower : Bytes → Bytes) (didParse : Bytes → GoM D) (optDID : Option Bytes → GoM D)
    (newMeta : M) (validate : Gen.InvDec D C A M → GoM Unit) (argsValidate : A → GoM Unit)
    (m : Gen.InvModel C A M) (t : Gen.InvDec D C A M)
    (h : Gen.Inv_tokenFromModel lower didParse optDID newMeta validate argsValidate m = .ok t) :
    Command.parse lower m.Cmd = .ok t.command ∧ t.nonce = m.Nonce ∧ t.nonce ≠ [] ∧ validate t = .ok () ∧
      argsValidate t.arguments = .ok () ∧ t.arguments = m.Args ∧ t.proof = m.Prf ∧ t.cause = m.Cause ∧
      (∀ b, t.expiration = some b → Facts.minInt53 ≤ b ∧ b ≤ Facts.maxInt53) ∧
      (∀ b, t.invokedAt = some b → Facts.minInt53 ≤ b ∧ b ≤ Facts.maxInt53) := by
  obtain ⟨iss, sub, aud, cmd, exp, iat, _, _, _, h4, hn, h5, h6, h7, rfl, hv⟩ :=
    (Inv_tokenFromModel_ok_iff lower didParse optDID newMeta validate argsValidate m t).1 h
  refine ⟨(Command_Parse_ok_iff lower m.Cmd cmd).1 h4, rfl, hn, hv, h5, rfl, rfl, rfl, ?_, ?_⟩
  · intro b hb
    exact OptionalTimestamp_some_bounds m.Exp b exp h6 hb
  · intro b hb
    exact OptionalTimestamp_some_bounds m.Iat b iat h7 hb

/-- a time bound as `validate()` sees it: absent, or within the range of the wire format -/
def boundOk (o : Option Int) : Bool :=
  match o with
  | none => true
  | some b => decide (Facts.minInt53 ≤ b ∧ b ≤ Facts.maxInt53)

/-- the time test of `validate()` (`ti != nil && (ti.Unix() > Max || ti.Unix() < Min)`), regenerated: no nil dereference -/
theorem checkTime_eq (o : Option Int) :
    (gand (notNil o) (do (gor (decide ((← (deref o)) > Ucan.Facts.maxInt53)) (do pure (decide ((← (deref o)) < Ucan.Facts.minInt53))))) : GoM Bool)
      = .ok (!(boundOk o)) := by
  cases o with
  | none => simp [gand, notNil, boundOk, pure, Except.pure]
  | some b =>
    by_cases h1 : b > Facts.maxInt53
    · have : ¬ (Facts.minInt53 ≤ b ∧ b ≤ Facts.maxInt53) := by omega
      simp [gand, gor, notNil, deref, boundOk, h1, this, bind, Except.bind, pure, Except.pure]
    · by_cases h2 : b < Facts.minInt53
      · have : ¬ (Facts.minInt53 ≤ b ∧ b ≤ Facts.maxInt53) := by omega
        simp [gand, gor, notNil, deref, boundOk, h1, h2, this, bind, Except.bind, pure, Except.pure]
      · have : Facts.minInt53 ≤ b ∧ b ≤ Facts.maxInt53 := by omega
        simp [gand, gor, notNil, deref, boundOk, h1, h2, this, bind, Except.bind, pure, Except.pure]

theorem joinErr_ne_none (o : Option GoErr) (e : GoErr) : joinErr o e ≠ none := by simp [joinErr]

/-- `if c then errs := joinErr errs e`, as a value -/
def accErr (errs : Option GoErr) (c : Bool) (e : GoErr) : Option GoErr := if c then joinErr errs e else errs

theorem accErr_none_iff (errs : Option GoErr) (c : Bool) (e : GoErr) : accErr errs c e = none ↔ errs = none ∧ c = false := by
  unfold accErr
  cases c <;> simp [joinErr]

theorem Dlg_validate_ok_iff (lower : Bytes → Bytes) (defined : D → Bool) (t : Gen.DlgDec D S M) :
    Gen.Dlg_validate lower defined t = .ok () ↔
      defined t.issuer = true ∧ defined t.audience = true ∧ 12 ≤ t.nonce.length ∧ (Command.parse lower t.command).isOk = true ∧
        boundOk t.notBefore = true ∧ boundOk t.expiration = true := by
  unfold Gen.Dlg_validate
  simp only [Command_IsValid_eq, checkTime_eq]
  have hlen : (decide (len t.nonce < (12 : Int)) = true) ↔ ¬ 12 ≤ t.nonce.length := by
    unfold len
    rw [decide_eq_true_eq]
    constructor <;> intro h <;> omega
  cases h1 : defined t.issuer <;> cases h2 : defined t.audience <;> by_cases h3 : 12 ≤ t.nonce.length <;>
    cases h4 : (Command.parse lower t.command).isOk <;> cases h5 : boundOk t.notBefore <;> cases h6 : boundOk t.expiration <;>
    simp [h1, h2, h3, h4, h5, h6, hlen, joinErr, bind, Except.bind, pure, Except.pure, throw, throwThe, MonadExceptOf.throw]

theorem Inv_validate_ok_iff (lower : Bytes → Bytes) (defined : D → Bool) (t : Gen.InvDec D C A M) :
    Gen.Inv_validate lower defined t = .ok () ↔
      defined t.issuer = true ∧ defined t.subject = true ∧ 12 ≤ t.nonce.length ∧ (Command.parse lower t.command).isOk = true ∧
        boundOk t.expiration = true ∧ boundOk t.invokedAt = true := by
  unfold Gen.Inv_validate
  simp only [Command_IsValid_eq, checkTime_eq]
  have hlen : (decide (len t.nonce < (12 : Int)) = true) ↔ ¬ 12 ≤ t.nonce.length := by
    unfold len
    rw [decide_eq_true_eq]
    constructor <;> intro h <;> omega
  cases h1 : defined t.issuer <;> cases h2 : defined t.subject <;> by_cases h3 : 12 ≤ t.nonce.length <;>
    cases h4 : (Command.parse lower t.command).isOk <;> cases h5 : boundOk t.expiration <;> cases h6 : boundOk t.invokedAt <;>
    simp [h1, h2, h3, h4, h5, h6, hlen, joinErr, bind, Except.bind, pure, Except.pure, throw, throwThe, MonadExceptOf.throw]

/-- C10 on the regenerated delegation decoder WITH the regenerated `validate()`: a delegation that comes out of
`tokenFromModel` has a defined issuer and audience, a nonce of at least 12 bytes, a command the model's `parse` accepts (and
it is the payload's command, unchanged), and time bounds within ±(2^53−1). `did.Parse`, `parse.OptionalDID`,
`policy.FromIPLD`, `DID.Defined` remain parameters. -/
theorem Dlg_decode_wellformed (lower : Bytes → Bytes) (didParse : Bytes → GoM D) (optDID : Option Bytes → GoM D)
    (polFromIPLD : N → GoM (List (Option S))) (newMeta : M) (defined : D → Bool) (m : Gen.DlgModel N M) (t : Gen.DlgDec D S M)
    (h : Gen.Dlg_tokenFromModel lower didParse optDID polFromIPLD newMeta (Gen.Dlg_validate lower defined) m = .ok t) :
    defined t.issuer = true ∧ defined t.audience = true ∧ 12 ≤ t.nonce.length ∧ t.nonce = m.Nonce ∧
      Command.parse lower m.Cmd = .ok t.command ∧ boundOk t.notBefore = true ∧ boundOk t.expiration = true := by
  obtain ⟨hc, hn, _, hv, _, _, _⟩ := Dlg_tokenFromModel_wellformed lower didParse optDID polFromIPLD newMeta _ m t h
  obtain ⟨h1, h2, h3, _, h5, h6⟩ := (Dlg_validate_ok_iff lower defined t).1 hv
  exact ⟨h1, h2, h3, hn, hc, h5, h6⟩

/-- … and the invocation decoder: defined issuer and subject, nonce ≥ 12 bytes, valid command, bounds in range, arguments
validated, proofs and cause as in the payload -/
theorem Inv_decode_wellformed (lower : Bytes → Bytes) (didParse : Bytes → GoM D) (optDID : Option Bytes → GoM D)
    (newMeta : M) (defined : D → Bool) (argsValidate : A → GoM Unit) (m : Gen.InvModel C A M) (t : Gen.InvDec D C A M)
    (h : Gen.Inv_tokenFromModel lower didParse optDID newMeta (Gen.Inv_validate lower defined) argsValidate m = .ok t) :
    defined t.issuer = true ∧ defined t.subject = true ∧ 12 ≤ t.nonce.length ∧ t.nonce = m.Nonce ∧
      Command.parse lower m.Cmd = .ok t.command ∧ argsValidate t.arguments = .ok () ∧ t.proof = m.Prf ∧ t.cause = m.Cause ∧
      boundOk t.expiration = true ∧ boundOk t.invokedAt = true := by
  obtain ⟨hc, hn, _, hv, ha, _, hp, hca, _, _⟩ := Inv_tokenFromModel_wellformed lower didParse optDID newMeta _ argsValidate m t h
  obtain ⟨h1, h2, h3, _, h5, h6⟩ := (Inv_validate_ok_iff lower defined t).1 hv
  exact ⟨h1, h2, h3, hn, hc, ha, hp, hca, h5, h6⟩

/-- the bound of 12 is not vacuous: an 11-byte nonce is refused by the regenerated `validate()` whatever else holds -/
example (lower : Bytes → Bytes) (t : Gen.DlgDec Nat Unit Unit) (h : t.nonce.length = 11) :
    Gen.Dlg_validate lower (fun _ => true) t ≠ .ok () := by
  intro hv
  have := ((Dlg_validate_ok_iff lower (fun _ => true) t).1 hv).2.2.1
  omega

/-- non-vacuity: with parsers that accept and a `validate` that accepts, a payload gives the expected token -/
example : Gen.Dlg_tokenFromModel (D := Nat) (S := Unit) (N := Unit) (M := Unit) (fun s => s) (fun _ => .ok 1) (fun _ => .ok 2)
    (fun _ => .ok []) () (fun _ => .ok ())
    { Iss := [1], Aud := [2], Sub := none, Cmd := [47], Pol := (), Nonce := [9], Meta := none, Nbf := none, Exp := some 5 } =
    .ok { issuer := 1, audience := 1, subject := 2, command := [47], policy := [], nonce := [9], meta_ := some (),
          notBefore := none, expiration := some 5 } := by
  rw [Dlg_tokenFromModel_ok_iff]
  refine ⟨1, 1, 2, [47], [], none, some 5, rfl, rfl, rfl, ?_, rfl, by simp, ?_, ?_, rfl, rfl⟩
  · exact (Command_Parse_ok_iff _ _ _).2 (by simp [Command.parse, Command.slash])
  · rw [OptionalTimestamp_eq]
  · rw [OptionalTimestamp_eq]; simp [Facts.minInt53, Facts.maxInt53]

end Ucan.Tie
