import Ucan.Gen.Did
import Ucan.Model.Did
/-!
Regenerated-code tie for `did.Parse` (C16). go-multibase's `Decode` and go-varint's `FromUvarint` are parameters of the generated
code; they are instantiated with the model's `mbDecode` parameter and its `fromUvarint` (minimal encoding, at most 9 bytes), an
absent result being an error value. The theorem: the regenerated function accepts exactly the texts the model's `parse` accepts and
returns the same code and bytes — prefix test, the text handed to the multibase decoder, the base58btc test, and the set of accepted
multicodec codes (the regenerated `switch` against the table `Facts.parseWhitelist` that factgen reads from the same `switch`).
Which error a refused text gets is not compared.
-/
set_option linter.unusedSimpArgs false
set_option linter.unusedSectionVars false
namespace Ucan.Tie
open Ucan Ucan.GoM

def extMb (mbDecode : Bytes → Option (Byte × Bytes)) (t : Bytes) : GoM (Int × Bytes) :=
  match mbDecode t with
  | none => .error (.err "multibase")
  | some (b, bs) => .ok ((b.toNat : Int), bs)

def extUv (bs : Bytes) : GoM (Int × Int) :=
  match Did.fromUvarint 9 bs with
  | none => .error (.err "varint")
  | some (v, k) => .ok ((v : Int), (k : Int))

theorem slice_from_prefix (p s : Bytes) (h : p.isPrefixOf s = true) :
    slice s (len p) (len s) = .ok (s.drop p.length) := by
  have hl : p.length ≤ s.length := (List.isPrefixOf_iff_prefix.mp h).length_le
  unfold slice len
  have : (0 : Int) ≤ (p.length : Int) ∧ (p.length : Int) ≤ (s.length : Int) ∧ (s.length : Int) ≤ (s.length : Int) := by omega
  simp only [this, and_self, ↓reduceIte, Int.toNat_natCast, pure, Except.pure]
  have h2 : ((s.length : Int) - (p.length : Int)).toNat = s.length - p.length := by omega
  rw [h2, List.take_of_length_le (by simp)]

theorem whitelist_iff (code : Nat) :
    (((code : Int) == 237 || (code : Int) == 4608 || (code : Int) == 4609 || (code : Int) == 4610 || (code : Int) == 231
      || (code : Int) == 4613) = true) ↔ Facts.parseWhitelist.contains code = true := by
  simp only [Facts.parseWhitelist, List.contains_cons, List.contains_nil, Bool.or_false, Bool.or_eq_true, beq_iff_eq]
  omega

/-- the model's DID value as the regenerated code represents it -/
def didVal (d : Did.DID) : Gen.DidVal := { code := (d.code : Int), bytes := d.bytes }

/-- `did.Parse`, regenerated, accepts exactly the texts the model's `parse` accepts and returns the same DID value -/
theorem did_Parse_ok_iff (mbDecode : Bytes → Option (Byte × Bytes)) (s : Bytes) (g : Gen.DidVal) :
    Gen.did_Parse (extMb mbDecode) extUv s = .ok g ↔ ∃ d, Did.parse mbDecode s = .ok d ∧ g = didVal d := by
  unfold Gen.did_Parse Did.parse
  by_cases hp : Did.keyPrefix.isPrefixOf s = true
  · have hp' : List.isPrefixOf ([100, 105, 100, 58, 107, 101, 121, 58] : Bytes) s = true := hp
    have hsl := slice_from_prefix [100, 105, 100, 58, 107, 101, 121, 58] s hp'
    simp only [hp, hp', Bool.not_true, Bool.false_eq_true, ↓reduceIte, hsl, not_true_eq_false, bind, Except.bind, pure, Except.pure,
      Did.keyPrefix, List.length_cons, List.length_nil]
    cases hm : mbDecode (s.drop 8) with
    | none => simp [extMb, hm]
    | some r =>
      obtain ⟨b, bs⟩ := r
      simp only [extMb, hm, Nat.zero_add, Nat.reduceAdd]
      by_cases hz : b = Did.zChar
      · subst hz
        have hz2 : ((((Did.zChar).toNat : Nat) : Int) != 122) = false := by decide
        simp only [hz2, Bool.false_eq_true, ↓reduceIte, ne_eq, not_true_eq_false, extUv]
        cases hu : Did.fromUvarint 9 bs with
        | none => simp
        | some vk =>
          obtain ⟨v, k⟩ := vk
          simp only
          by_cases hw : Facts.parseWhitelist.contains v = true
          · have hw2 := (whitelist_iff v).2 hw
            simp only [hw2, ↓reduceIte, hw, Except.ok.injEq]
            constructor
            · intro h; exact ⟨_, rfl, h.symm⟩
            · rintro ⟨d, rfl, rfl⟩; rfl
          · have h' : ¬ (((v : Int) == 237 || (v : Int) == 4608 || (v : Int) == 4609 || (v : Int) == 4610 || (v : Int) == 231
                || (v : Int) == 4613) = true) := fun h => hw ((whitelist_iff v).1 h)
            have hw' : ¬ v ∈ Facts.parseWhitelist := by simpa using hw
            simp [h', hw, hw', throw, throwThe, MonadExceptOf.throw]
      · have hne : ((b.toNat : Int) != 122) = true := by
          simp only [bne_iff_ne, ne_eq]
          intro h
          apply hz
          have : b.toNat = 122 := by omega
          exact UInt8.toNat_inj.mp (by simpa [Did.zChar] using this)
        simp [hne, hz, throw, throwThe, MonadExceptOf.throw]
  · have hp' : ¬ List.isPrefixOf ([100, 105, 100, 58, 107, 101, 121, 58] : Bytes) s = true := hp
    simp [hp, hp', throw, throwThe, MonadExceptOf.throw, Did.keyPrefix, bind, Except.bind]

/-- … in particular a text is refused by the one exactly when it is refused by the other -/
theorem did_Parse_refuses_iff (mbDecode : Bytes → Option (Byte × Bytes)) (s : Bytes) :
    (∃ e, Gen.did_Parse (extMb mbDecode) extUv s = .error e) ↔ (∃ e, Did.parse mbDecode s = .error e) := by
  have h := did_Parse_ok_iff mbDecode s
  cases hg : Gen.did_Parse (extMb mbDecode) extUv s with
  | ok g =>
    obtain ⟨d, hd, _⟩ := (h g).1 hg
    simp [hd]
  | error e =>
    cases hm : Did.parse mbDecode s with
    | error e' => simp
    | ok d => have := (h (didVal d)).2 ⟨d, hm, rfl⟩; rw [hg] at this; cases this

/-- non-vacuity: with a decoder that finds base58btc and the bytes of an Ed25519 code, the text is accepted -/
example : Gen.did_Parse (extMb (fun _ => some (Did.zChar, [0xed, 0x01, 7]))) extUv (Did.keyPrefix ++ [122, 65]) =
    .ok { code := 237, bytes := [0xed, 0x01, 7] } := by
  rw [did_Parse_ok_iff]
  exact ⟨{ code := 237, bytes := [0xed, 0x01, 7] }, by simp [Did.parse, Did.keyPrefix, Did.zChar, Did.fromUvarint, Facts.parseWhitelist], rfl⟩

end Ucan.Tie
