import Ucan.Gen.ChainAllowed
import Ucan.Props.Tie.ChainOrderExact
import Ucan.Props.Tie.ChainAllowed
import Ucan.Props.Tie.ChainTime
import Ucan.Props.Tie.ChainProofs
import Ucan.Props.Tie.ChainProofsExact
import Ucan.Props.Tie.ChainArgs
import Ucan.Props.Tie.ChainLoad
import Ucan.Props.Tie.ChainLoadExact
/-! (Not registered for any property: WHICH error a refused invocation gets is not part of one — `ChainAllowed` carries what the
properties need.) Exact form of the tie for `executionAllowed` (C01–C05): the four stages run in the model's order and hand the loaded
delegations from one to the next. `loadProofs` (it talks to the caller's loader), `ToIPLD` (the conversion of the caller's
arguments) and `matchStatement` (the statement evaluator) are parameters of the regenerated code; `verifyArgs` and
`Policy.Match` are regenerated themselves. The second theorem instantiates the parameters with the model's functions. -/
set_option linter.unusedSimpArgs false
set_option linter.unusedSectionVars false
namespace Ucan.Tie
open Ucan Ucan.GoM

variable {D C L A : Type} [DecidableEq D]


/-- `executionAllowed`, regenerated: load, then `verifyProofs`, then `verifyTimeBound` at the instant `now`, then
`verifyArgs`; the first failing stage decides. The two middle stages are the model's. -/
theorem Inv_executionAllowed_stages {X : Type} (x : X) (args : Node) (undef : D) (pol) (now : Int)
    (extGet : L → C → GoM (Gen.DlgTok D Policy.Stmt))
    (extIPLD : A → GoM Node)
    (g : Gen.InvTok D C A) (loader : L) (a : A) (hs : g.subject ≠ undef)
    (hlen : ∀ ds, Gen.Inv_loadProofs extGet g loader = .ok ds → ds.length = g.proof.length) :
    Gen.Inv_executionAllowed now extGet extMatch extIPLD g loader a =
      (Gen.Inv_loadProofs extGet g loader >>= fun ds =>
        liftE (Chain.verifyProofs (toInv x args g) (ds.map (toDlg undef pol))) >>= fun _ =>
        liftE (Chain.verifyTime now (toInv x args g) (ds.map (toDlg undef pol))) >>= fun _ =>
        Gen.Inv_verifyArgs extMatch extIPLD g ds a) := by
  unfold Gen.Inv_executionAllowed Gen.Inv_verifyTimeBound
  cases hl : Gen.Inv_loadProofs extGet g loader with
  | error e => simp [bind, Except.bind]
  | ok ds =>
    have hlen' := hlen ds hl
    simp only [bind, Except.bind, pure, Except.pure, liftE,
      Inv_verifyProofs_eq x args undef pol g ds hs hlen', Inv_verifyTimeBoundAt_eq x args undef pol g ds now hlen']
    cases Chain.verifyProofs (toInv x args g) (ds.map (toDlg undef pol)) with
    | error e => simp [Except.mapError]
    | ok u =>
      cases Chain.verifyTime now (toInv x args g) (ds.map (toDlg undef pol)) with
      | error e => simp [Except.mapError]
      | ok u =>
        cases Gen.Inv_verifyArgs extMatch extIPLD g ds a <;> simp [Except.mapError]

/-- with the model's `loadProofs` and statement evaluator for the parameters, the regenerated `executionAllowed` IS the
model's `executionAllowed` (the function `C01_sound … C05_complete` are about) -/
theorem Inv_executionAllowed_eq {X : Type} (x : X) (args : Node) (undef : D) (pol) (now : Int)
    (extGet : L → C → GoM (Gen.DlgTok D Policy.Stmt))
    (extIPLD : A → GoM Node)
    (ldG : C → Option (Gen.DlgTok D Policy.Stmt))
    (g : Gen.InvTok D C A) (loader : L) (a : A) (hs : g.subject ≠ undef)
    (hl : LoaderIs extGet loader ldG)
    (hipld : extIPLD a = .ok args)
    (hpol : ∀ c d, ldG c = some d → d.policy = (pol d).map some) :
    Gen.Inv_executionAllowed now extGet extMatch extIPLD g loader a =
      liftE (Chain.executionAllowed (fun c => (ldG c).map (toDlg undef pol)) now (toInv x args g) args) := by
  have hload := Inv_loadProofs_eq extGet loader ldG hl g
  have hmodel : ∀ (cs : List C),
      Chain.loadProofs (fun c => (ldG c).map (toDlg undef pol)) cs =
        match cs.mapM ldG with
        | some ds => .ok (ds.map (toDlg undef pol))
        | none => .error .missingDelegation := by
    intro cs
    induction cs with
    | nil => simp [Chain.loadProofs]
    | cons c cs ih =>
      simp only [Chain.loadProofs, List.mapM_cons]
      cases hc : ldG c with
      | none => simp [hc]
      | some d =>
        simp only [hc, Option.map_some, ih]
        cases cs.mapM ldG <;> simp
  have hlenM : ∀ (cs : List C) ds, cs.mapM ldG = some ds → ds.length = cs.length := by
    intro cs
    induction cs with
    | nil => intro ds h; simp at h; subst h; rfl
    | cons c cs ih =>
      intro ds h
      simp only [List.mapM_cons] at h
      cases hc : ldG c with
      | none => simp [hc] at h
      | some d =>
        cases hm : cs.mapM ldG with
        | none => simp [hc, hm] at h
        | some ds' =>
          simp [hc, hm] at h
          subst h
          simp [ih ds' hm]
  have hmem : ∀ (cs : List C) ds, cs.mapM ldG = some ds → ∀ d ∈ ds, ∃ c, ldG c = some d := by
    intro cs
    induction cs with
    | nil => intro ds h d hd; simp at h; subst h; simp at hd
    | cons c cs ih =>
      intro ds h d hd
      simp only [List.mapM_cons] at h
      cases hc : ldG c with
      | none => simp [hc] at h
      | some d0 =>
        cases hm : cs.mapM ldG with
        | none => simp [hc, hm] at h
        | some ds' =>
          simp [hc, hm] at h
          subst h
          rcases List.mem_cons.1 hd with h1 | h1
          · exact ⟨c, by rw [hc, h1]⟩
          · exact ih ds' hm d h1
  have hlen : ∀ ds, Gen.Inv_loadProofs extGet g loader = .ok ds → ds.length = g.proof.length := by
    intro ds h
    rw [hload] at h
    cases hm : g.proof.mapM ldG with
    | none => simp [hm] at h
    | some ds' =>
      simp [hm] at h
      subst h
      exact hlenM _ _ hm
  rw [Inv_executionAllowed_stages x args undef pol now extGet extIPLD g loader a hs hlen, hload]
  unfold Chain.executionAllowed
  have hprf : (toInv x args g).prf = g.proof := rfl
  rw [hprf, hmodel g.proof]
  cases hm : g.proof.mapM ldG with
  | none => simp [liftE, Except.mapError, bind, Except.bind]
  | some ds =>
    have hpol' : ∀ d ∈ ds, d.policy = (pol d).map some := by
      intro d hd
      obtain ⟨c, hc⟩ := hmem g.proof ds hm d hd
      exact hpol c d hc
    simp only [bind, Except.bind, liftE, Inv_verifyArgs_eq undef pol extIPLD g ds a args (hlenM _ _ hm) hipld hpol']
    cases Chain.verifyProofs (toInv x args g) (ds.map (toDlg undef pol)) with
    | error e => simp [Except.mapError]
    | ok u =>
      cases Chain.verifyTime now (toInv x args g) (ds.map (toDlg undef pol)) with
      | error e => simp [Except.mapError]
      | ok u => simp [Except.mapError]

end Ucan.Tie
