import Ucan.Lemmas.Chain
/-!
# C01 — authority is rooted in the subject and flows link by link to the invoker
(also hosts the shared characterisation `verifyProofs_ok_iff` used by C02 and C05)
-/
set_option linter.unusedSectionVars false
set_option linter.unusedSimpArgs false
namespace Ucan.Chain
open Ucan.Policy

variable {D C X : Type} [DecidableEq D]

/-- the running-issuer loop plus the root test accept exactly the chains that satisfy the principal and
    command clauses of the specification -/
theorem verifyProofs_ok_iff (inv : Inv D C X) (ds : List (Dlg D)) :
    verifyProofs inv ds = .ok () ↔ PrincipalSpec inv ds ∧ CommandSpec inv ds := by
  unfold verifyProofs
  cases ds with
  | nil =>
    simp only [List.length_nil, Nat.lt_one_iff, if_true]
    constructor
    · intro h; cases h
    · rintro ⟨p, _⟩; exact absurd rfl p.nonempty
  | cons d0 ds0 =>
    have hlen : ¬ (d0 :: ds0).length < 1 := by simp
    simp only [hlen, if_false]
    cases hl : proofLoop inv.sub inv.iss inv.cmd (d0 :: ds0) with
    | error e =>
      simp only []
      constructor
      · intro h; cases h
      · rintro ⟨p, c⟩
        have : proofLoop inv.sub inv.iss inv.cmd (d0 :: ds0) = .ok () := by
          rw [proofLoop_ok_iff, aligned_iff_index]
          refine ⟨p.subject, fun d hd => ⟨p.first_to_invoker d hd, c.first_covers_invocation d hd⟩, ?_⟩
          intro i hi
          exact ⟨p.linked i hi, c.narrowing i hi⟩
        rw [this] at hl; cases hl
    | ok u =>
      cases u
      rw [proofLoop_ok_iff, aligned_iff_index] at hl
      obtain ⟨hsub, hfirst, hlink⟩ := hl
      have hne : (d0 :: ds0).getLast? = some ((d0 :: ds0).getLast (by simp)) := List.getLast?_eq_some_getLast (by simp)
      rw [hne]
      simp only []
      constructor
      · intro h
        split at h
        · cases h
        · rename_i hroot
          have hroot' : some ((d0 :: ds0).getLast (by simp)).iss = ((d0 :: ds0).getLast (by simp)).sub :=
            Classical.not_not.1 hroot
          refine ⟨⟨by simp, fun d hd => (hfirst d hd).1, fun i hi => (hlink i hi).1, ?_, hsub⟩,
            ⟨fun d hd => (hfirst d hd).2, fun i hi => (hlink i hi).2⟩⟩
          intro d hd
          rw [hne] at hd
          cases hd
          exact hroot'.symm
      · rintro ⟨p, _⟩
        have := p.root _ hne
        rw [if_neg (by simp [this])]

/-- C01 (soundness): an allowed invocation has a non-empty, fully loaded proof chain that is aligned on
    principals from the invoker up to a root issued by its own subject, every link naming the
    invocation's subject -/
theorem C01_sound (ld : C → Option (Dlg D)) (now : Int) (inv : Inv D C X) (args : Node)
    (h : executionAllowed ld now inv args = .ok ()) :
    ∃ ds, loadProofs ld inv.prf = .ok ds ∧ ds.length = inv.prf.length ∧
      (∀ i (h1 : i < inv.prf.length) (h2 : i < ds.length), ld inv.prf[i] = some ds[i]) ∧
      PrincipalSpec inv ds := by
  unfold executionAllowed at h
  cases hl : loadProofs ld inv.prf with
  | error e => simp [hl] at h
  | ok ds =>
    simp only [hl] at h
    cases hv : verifyProofs inv ds with
    | error e => simp [hv] at h
    | ok u =>
      cases u
      obtain ⟨l, g⟩ := loadProofs_length ld inv.prf ds hl
      exact ⟨ds, rfl, l, g, ((verifyProofs_ok_iff inv ds).1 hv).1⟩

/-- C01: an empty proof list is never allowed -/
theorem C01_no_proof (ld : C → Option (Dlg D)) (now : Int) (inv : Inv D C X) (args : Node)
    (h : inv.prf = []) : executionAllowed ld now inv args = .error .noProof := by
  simp [executionAllowed, h, loadProofs, verifyProofs]

/-- C01: a proof that cannot be loaded is never allowed -/
theorem C01_missing (ld : C → Option (Dlg D)) (now : Int) (inv : Inv D C X) (args : Node)
    (c : C) (hc : c ∈ inv.prf) (hm : ld c = none) : executionAllowed ld now inv args ≠ .ok () := by
  intro h
  obtain ⟨ds, _, hlen, hget, _⟩ := C01_sound ld now inv args h
  obtain ⟨i, hi, rfl⟩ := List.getElem_of_mem hc
  have := hget i hi (by omega)
  rw [hm] at this; cases this

/-- C01: the invocation's optional audience has no influence on the decision -/
theorem C01_audience_irrelevant (ld : C → Option (Dlg D)) (now : Int) (inv : Inv D C X) (args : Node)
    (a : Option D) : executionAllowed ld now { inv with aud := a } args = executionAllowed ld now inv args := rfl

-- non-vacuity: a two-link chain A(root) → B → invoker C over subject A is accepted
def exRoot : Dlg Nat := { iss := 0, aud := 1, sub := some 0, cmd := [47], pol := [], nbf := none, exp := none }
def exLeaf : Dlg Nat := { iss := 1, aud := 2, sub := some 0, cmd := [47, 97], pol := [], nbf := none, exp := none }
def exInv : Inv Nat Nat Unit :=
  { iss := 2, sub := 0, cmd := [47, 97, 47, 98], args := Node.map [], prf := [10, 11], exp := none,
    aud := some 7, nonce := (), metadata := (), cause := (), iat := () }
def exLoader : Nat → Option (Dlg Nat) := fun c => if c = 10 then some exLeaf else if c = 11 then some exRoot else none

example : executionAllowed exLoader 5 exInv exInv.args = .ok () := by rfl

end Ucan.Chain
