import Ucan.Lemmas.Base64
import Ucan.Lemmas.Container
import Ucan.Props.C08
/-!
# C17 — a container returns exactly the tokens put in, under their true CIDs
-/
set_option linter.unusedSimpArgs false
namespace Ucan.Container

/-- a block as the writer produces it: a CID that parses back off the front of the section, that hashes
    to the data, and a section within the size cap -/
structure WFBlock (hashOk : Bytes → Bytes → Bool) (b : Block) : Prop where
  split : splitCid (b.cid ++ b.data) = some (b.cid, b.data)
  hash : hashOk b.cid b.data = true
  nonempty : b.cid ++ b.data ≠ []
  size : (b.cid ++ b.data).length ≤ maxSection

def sections (bs : List Block) : Bytes := (bs.map (fun b => ldWrite (b.cid ++ b.data))).flatten

theorem readBlocks_sections (hashOk : Bytes → Bytes → Bool) (bs : List Block) (fuel : Nat)
    (hw : ∀ b ∈ bs, WFBlock hashOk b) (hf : bs.length < fuel) :
    readBlocks hashOk .eof fuel (sections bs) = .ok bs := by
  induction bs generalizing fuel with
  | nil =>
    cases fuel with
    | zero => simp at hf
    | succ f => simp [sections, readBlocks, ldRead]
  | cons b bs ih =>
    cases fuel with
    | zero => simp at hf
    | succ f =>
      have wb := hw b List.mem_cons_self
      have e : sections (b :: bs) = ldWrite (b.cid ++ b.data) ++ sections bs := by simp [sections]
      rw [e]
      unfold readBlocks
      rw [ldRead_ldWrite .eof _ _ wb.nonempty wb.size]
      simp only [readBlock, wb.split, wb.hash, if_true]
      rw [ih f (fun x hx => hw x (List.mem_cons_of_mem _ hx)) (by simpa using hf)]

/-- reading a CAR that was written gives back exactly the blocks, in order -/
theorem C17_car_roundtrip (headerOk : Bytes → Bool) (hashOk : Bytes → Bytes → Bool) (header : Bytes) (bs : List Block)
    (hh : headerOk header = true) (h0 : header ≠ []) (hmax : header.length ≤ maxSection)
    (hw : ∀ b ∈ bs, WFBlock hashOk b) :
    readCar headerOk hashOk .eof (writeCar header bs) = .ok bs := by
  unfold readCar writeCar
  rw [ldRead_ldWrite .eof _ _ h0 hmax]
  simp only [hh, if_true]
  apply readBlocks_sections hashOk bs _ hw
  have : bs.length ≤ (sections bs).length := by
    clear hw
    induction bs with
    | nil => simp
    | cons b bs ih =>
      have hp := putUvarint_length_pos (b.cid ++ b.data).length
      have e : sections (b :: bs) = ldWrite (b.cid ++ b.data) ++ sections bs := by simp [sections]
      rw [e, List.length_append, List.length_cons]
      unfold ldWrite
      rw [List.length_append]
      omega
  show bs.length < (sections bs).length + 1
  omega

theorem addTokens_ok {T : Type} (unsealFn : Bytes → Option (Bytes × T)) (ds : List Bytes) (es : Entries T)
    (h : addTokens unsealFn ds = .ok es) : ds.map unsealFn = es.map some := by
  induction ds generalizing es with
  | nil => simp [addTokens] at h; subst h; rfl
  | cons d ds ih =>
    unfold addTokens at h
    cases hu : unsealFn d with
    | none => simp [hu] at h
    | some e =>
      simp only [hu] at h
      cases hr : addTokens unsealFn ds with
      | error err => simp [hr] at h
      | ok es' =>
        simp only [hr] at h; cases h
        simp [hu, ih es' hr]

theorem addTokens_complete {T : Type} (unsealFn : Bytes → Option (Bytes × T)) (ds : List Bytes)
    (h : ∀ d ∈ ds, (unsealFn d).isSome) : ∃ es, addTokens unsealFn ds = .ok es ∧ ds.map unsealFn = es.map some := by
  induction ds with
  | nil => exact ⟨[], rfl, rfl⟩
  | cons d ds ih =>
    obtain ⟨es, he, hm⟩ := ih (fun x hx => h x (List.mem_cons_of_mem _ hx))
    have hd := h d List.mem_cons_self
    cases hu : unsealFn d with
    | none => simp [hu] at hd
    | some e => exact ⟨e :: es, by simp [addTokens, hu, he], by simp [hu, hm]⟩

/-- C17 (CAR): reading what was written yields exactly the tokens added, each under the CID computed from
    its sealed bytes, each having passed unsealing (signature verification) -/
theorem C17_car_exact {T : Type} (headerOk : Bytes → Bool) (hashOk : Bytes → Bytes → Bool)
    (unsealFn : Bytes → Option (Bytes × T)) (header : Bytes) (bs : List Block)
    (hh : headerOk header = true) (h0 : header ≠ []) (hmax : header.length ≤ maxSection)
    (hw : ∀ b ∈ bs, WFBlock hashOk b) (hu : ∀ b ∈ bs, (unsealFn b.data).isSome) :
    ∃ es, fromCar headerOk hashOk unsealFn .eof (writeCar header bs) = .ok es ∧
      (bs.map (fun b => unsealFn b.data)) = es.map some := by
  unfold fromCar
  rw [C17_car_roundtrip headerOk hashOk header bs hh h0 hmax hw]
  obtain ⟨es, he, hm⟩ := addTokens_complete unsealFn (bs.map (·.data)) (by
    intro d hd; obtain ⟨b, hb, rfl⟩ := List.mem_map.1 hd; exact hu b hb)
  refine ⟨es, he, ?_⟩
  rw [← hm, List.map_map]; rfl

/-- C17 (order): writing the same blocks in another order yields the same entries up to order
    (the Go writer iterates over a map) -/
theorem C17_order_independent {T : Type} (unsealFn : Bytes → Option (Bytes × T)) (ds ds' : List Bytes)
    (es es' : Entries T) (p : ds.Perm ds') (h : addTokens unsealFn ds = .ok es) (h' : addTokens unsealFn ds' = .ok es') :
    es.Perm es' := by
  have e1 := addTokens_ok unsealFn ds es h
  have e2 := addTokens_ok unsealFn ds' es' h'
  have pm : (es.map some).Perm (es'.map some) := by rw [← e1, ← e2]; exact p.map _
  -- `some` is injective: a permutation of the images is a permutation of the lists
  have key : ∀ (l₁ l₂ : List (Bytes × T)), (l₁.map some).Perm (l₂.map some) → l₁.Perm l₂ := by
    intro l₁ l₂ hp
    have := hp.filterMap id
    simpa [List.filterMap_map] using this
  exact key es es' pm

/-- C17 (all or nothing): a successful read means EVERY entry unsealed and (CAR) hashed to its stored CID;
    conversely one bad entry fails the whole read -/
theorem C17_all_or_nothing {T : Type} (unsealFn : Bytes → Option (Bytes × T)) (ds : List Bytes) (es : Entries T)
    (h : addTokens unsealFn ds = .ok es) : ∀ d ∈ ds, (unsealFn d).isSome ∧ ∃ e ∈ es, unsealFn d = some e := by
  intro d hd
  have hm := addTokens_ok unsealFn ds es h
  have : unsealFn d ∈ ds.map unsealFn := List.mem_map_of_mem hd
  rw [hm] at this
  obtain ⟨e, he, heq⟩ := List.mem_map.1 this
  exact ⟨by rw [← heq]; rfl, e, he, heq.symm⟩

theorem C17_one_bad_entry_fails {T : Type} (unsealFn : Bytes → Option (Bytes × T)) (ds : List Bytes) (d : Bytes)
    (hd : d ∈ ds) (hbad : unsealFn d = none) : ∃ e, addTokens unsealFn ds = .error e := by
  cases h : addTokens unsealFn ds with
  | error e => exact ⟨e, rfl⟩
  | ok es =>
    have := (C17_all_or_nothing unsealFn ds es h d hd).1
    rw [hbad] at this; cases this

theorem readBlocks_integrity (hashOk : Bytes → Bytes → Bool) (e : Ending) (fuel : Nat) (b : Bytes) (bs : List Block)
    (h : readBlocks hashOk e fuel b = .ok bs) : ∀ blk ∈ bs, hashOk blk.cid blk.data = true := by
  induction fuel generalizing b bs with
  | zero => simp [readBlocks] at h
  | succ f ih =>
    unfold readBlocks at h
    split at h
    · cases h; simp
    · cases h
    · rename_i raw rest _
      cases hb : readBlock hashOk raw with
      | error e => simp [hb] at h
      | ok blk =>
        simp only [hb] at h
        cases hr : readBlocks hashOk e f rest with
        | error e => simp [hr] at h
        | ok bs' =>
          simp only [hr] at h; cases h
          intro x hx
          rcases List.mem_cons.1 hx with rfl | hx
          · unfold readBlock at hb
            split at hb; · cases hb
            split at hb
            · rename_i hok; cases hb; exact hok
            · cases hb
          · exact ih rest bs' hr x hx

/-- C17 (CAR integrity): every block of a successfully read CAR is stored under a CID that hashes to its data -/
theorem C17_car_integrity (headerOk : Bytes → Bool) (hashOk : Bytes → Bytes → Bool) (e : Ending) (b : Bytes) (bs : List Block)
    (h : readCar headerOk hashOk e b = .ok bs) : ∀ blk ∈ bs, hashOk blk.cid blk.data = true := by
  unfold readCar at h
  split at h
  · cases h
  · cases h
  · split at h
    · exact readBlocks_integrity hashOk e _ _ bs h
    · cases h

/-- the CBOR container round-trips too (through the DAG-CBOR round trip, C08) -/
theorem C17_cbor_roundtrip {T : Type} (unsealFn : Bytes → Option (Bytes × T)) (sealed : List Bytes)
    (hwf : Cbor.WF (.map [(versionKey, .list (sealed.map .bytes))])) (hu : ∀ d ∈ sealed, (unsealFn d).isSome) :
    ∃ es, fromCbor unsealFn .eof (toCbor sealed) = .ok es ∧ sealed.map unsealFn = es.map some := by
  unfold fromCbor toCbor
  rw [Cbor.C08_decode_encode _ hwf]
  have hm : (sealed.map Node.bytes).mapM bytesOf = some sealed := by
    clear hwf hu
    induction sealed with
    | nil => rfl
    | cons d ds ih => simp [List.mapM_cons, bytesOf, ih]
  simp only [ne_eq, not_true_eq_false, if_false, hm]
  exact addTokens_complete unsealFn sealed hu

/-- C17 (CAR/base64): the base64 variant reads back exactly what the CAR variant does — `Base64.decode_encode` -/
theorem C17_carb64_exact {T : Type} (headerOk : Bytes → Bool) (hashOk : Bytes → Bytes → Bool)
    (unsealFn : Bytes → Option (Bytes × T)) (header : Bytes) (bs : List Block)
    (hh : headerOk header = true) (h0 : header ≠ []) (hmax : header.length ≤ maxSection)
    (hw : ∀ b ∈ bs, WFBlock hashOk b) (hu : ∀ b ∈ bs, (unsealFn b.data).isSome) :
    ∃ es, fromCarBase64 headerOk hashOk unsealFn .eof (toCarBase64 header bs) = .ok es ∧
      (bs.map (fun b => unsealFn b.data)) = es.map some := by
  unfold fromCarBase64 toCarBase64
  rw [Base64.decode_encode]
  exact C17_car_exact headerOk hashOk unsealFn header bs hh h0 hmax hw hu

/-- C17 (CBOR/base64) -/
theorem C17_cborb64_roundtrip {T : Type} (unsealFn : Bytes → Option (Bytes × T)) (sealed : List Bytes)
    (hwf : Cbor.WF (.map [(versionKey, .list (sealed.map .bytes))])) (hu : ∀ d ∈ sealed, (unsealFn d).isSome) :
    ∃ es, fromCborBase64 unsealFn .eof (toCborBase64 sealed) = .ok es ∧ sealed.map unsealFn = es.map some := by
  unfold fromCborBase64 toCborBase64
  rw [Base64.decode_encode]
  exact C17_cbor_roundtrip unsealFn sealed hwf hu

/-- the bytes variant and the base64 variant of a reader agree on every container text the base64 writer produces -/
theorem C17_base64_variant_agrees {T : Type} (headerOk : Bytes → Bool) (hashOk : Bytes → Bytes → Bool)
    (unsealFn : Bytes → Option (Bytes × T)) (e : Ending) (raw : Bytes) :
    fromCarBase64 headerOk hashOk unsealFn e (Base64.encode raw) = fromCar headerOk hashOk unsealFn e raw ∧
      fromCborBase64 unsealFn e (Base64.encode raw) = fromCbor unsealFn e raw := by
  simp [fromCarBase64, fromCborBase64, Base64.decode_encode]

/-- text that is not base64 is refused by both base64 readers -/
theorem C17_not_base64_refused {T : Type} (headerOk : Bytes → Bool) (hashOk : Bytes → Bytes → Bool)
    (unsealFn : Bytes → Option (Bytes × T)) (e : Ending) (b : Bytes) (h : Base64.decode b = none) :
    fromCarBase64 headerOk hashOk unsealFn e b = .error .base64 ∧ fromCborBase64 unsealFn e b = .error .base64 := by
  simp [fromCarBase64, fromCborBase64, h]

end Ucan.Container
