import Ucan.Lemmas.CborPrefix
import Ucan.Props.C17
import Ucan.Lemmas.CidStream
/-!
# C18 — streaming APIs agree with buffered APIs and surface every I/O fault

In the model a reader is the bytes it delivers plus how it ends (`eof` or `fault`); the buffered and the
streaming entry points are the same function of that source, so "streaming = buffered" holds by
construction and what is proved is the behaviour at faults and truncations. Independence from how the
bytes are chunked is a property of `bufio`/`io.ReadFull` (dependencies) that the stream `container` measures.
-/
set_option linter.unusedSimpArgs false
namespace Ucan.Container

/-- a source that ends with an I/O error never yields blocks -/
theorem readBlocks_fault (hashOk : Bytes → Bytes → Bool) (fuel : Nat) (b : Bytes) :
    ∀ bs, readBlocks hashOk .fault fuel b ≠ .ok bs := by
  induction fuel generalizing b with
  | zero => intro bs h; simp [readBlocks] at h
  | succ f ih =>
    intro bs h
    unfold readBlocks at h
    split at h
    · rename_i hc
      unfold ldRead at hc
      split at hc
      · cases hc
      · split at hc
        · cases hc
        · split at hc; · cases hc
          split at hc; · cases hc
          split at hc <;> cases hc
    · cases h
    · rename_i raw rest _
      cases hb : readBlock hashOk raw with
      | error e => simp [hb] at h
      | ok blk =>
        simp only [hb] at h
        cases hr : readBlocks hashOk .fault f rest with
        | error e => simp [hr] at h
        | ok bs' => exact ih rest bs' hr

/-- C18 (faults, CAR): if the underlying reader fails at any point the CAR reader returns an error -/
theorem C18_fault_car {T : Type} (headerOk : Bytes → Bool) (hashOk : Bytes → Bytes → Bool)
    (unsealFn : Bytes → Option (Bytes × T)) (b : Bytes) :
    ∃ e, fromCar headerOk hashOk unsealFn .fault b = .error e := by
  unfold fromCar
  cases h : readCar headerOk hashOk .fault b with
  | error e => exact ⟨e, rfl⟩
  | ok bs =>
    exfalso
    unfold readCar at h
    split at h
    · cases h
    · cases h
    · split at h
      · exact readBlocks_fault hashOk _ _ bs h
      · cases h

/-- C18 (faults, CBOR container): likewise -/
theorem C18_fault_cbor {T : Type} (unsealFn : Bytes → Option (Bytes × T)) (b : Bytes) :
    fromCbor unsealFn .fault b = .error .io := rfl

theorem prefix_append_cases {α} (p a b : List α) (h : p <+: a ++ b) :
    (∃ s, s ≠ [] ∧ p ++ s = a) ∨ (∃ p', p = a ++ p' ∧ p' <+: b) := by
  induction a generalizing p with
  | nil => right; exact ⟨p, rfl, by simpa using h⟩
  | cons x a ih =>
    cases p with
    | nil => left; exact ⟨x :: a, by simp, rfl⟩
    | cons y p =>
      rw [List.cons_append, List.cons_prefix_cons] at h
      obtain ⟨rfl, h⟩ := h
      rcases ih p h with ⟨s, hs, e⟩ | ⟨p', e, hp⟩
      · left; exact ⟨s, hs, by simp [e]⟩
      · right; exact ⟨p', by simp [e], hp⟩

/-- reading a section from a truncated input: nothing (clean end, only when nothing at all is left),
    an unexpected-EOF error, or the whole section followed by a prefix of the rest -/
theorem ldRead_prefix (d rest p : Bytes) (h0 : d ≠ []) (hmax : d.length ≤ maxSection)
    (hp : p <+: ldWrite d ++ rest) :
    (p = [] ∧ ldRead .eof p = .cleanEnd) ∨ ldRead .eof p = .error .unexpectedEOF ∨
    (∃ p', p = ldWrite d ++ p' ∧ p' <+: rest ∧ ldRead .eof p = .section d p') := by
  rcases prefix_append_cases p (ldWrite d) rest hp with ⟨s, hs, e⟩ | ⟨p', e, hp'⟩
  · -- the cut is inside the section
    by_cases hpe : p = []
    · left; subst hpe; exact ⟨rfl, rfl⟩
    · right; left
      unfold ldWrite at e
      have e' : p ++ s = putUvarint d.length ++ d := e
      rcases prefix_append_cases p (putUvarint d.length) d ⟨s, e'⟩ with ⟨s2, hs2, e2⟩ | ⟨q, eq, hq⟩
      · -- inside the varint
        unfold ldRead
        cases p with
        | nil => exact absurd rfl hpe
        | cons x p =>
          simp only [readUvarint_proper_prefix 10 d.length (x :: p) s2 hs2 e2]
      · -- after the varint, inside the data
        subst eq
        unfold ldRead
        have hne : putUvarint d.length ++ q ≠ [] := by
          have := putUvarint_length_pos d.length
          intro h; have h' := congrArg List.length h
          simp only [List.length_append, List.length_nil] at h'; omega
        split
        · rename_i heq; exact absurd heq hne
        · rw [readUvarint_put _ _ hmax]
          have hl : ¬ d.length = 0 := fun h => h0 (List.length_eq_zero_iff.1 h)
          have h2 : ¬ d.length > maxSection := by omega
          have hq' : q.length < d.length := by
            have : putUvarint d.length ++ q ++ s = putUvarint d.length ++ d := e'
            rw [List.append_assoc] at this
            have := List.append_cancel_left this
            have hl := congrArg List.length this
            simp only [List.length_append] at hl
            have : 0 < s.length := List.length_pos_iff.2 hs
            omega
          simp only [hl, h2, hq', if_false, if_true]
  · right; right
    exact ⟨p', e, hp', by rw [e]; exact ldRead_ldWrite .eof d p' h0 hmax⟩

theorem readBlocks_prefix (hashOk : Bytes → Bytes → Bool) (bs : List Block) (p : Bytes) (fuel : Nat)
    (hw : ∀ b ∈ bs, WFBlock hashOk b) (hp : p <+: sections bs) (hf : p.length < fuel) :
    (∃ e, readBlocks hashOk .eof fuel p = .error e) ∨ ∃ k, readBlocks hashOk .eof fuel p = .ok (bs.take k) := by
  induction bs generalizing p fuel with
  | nil =>
    have : p = [] := by simpa [sections] using hp
    subst this
    cases fuel with
    | zero => simp at hf
    | succ f => right; exact ⟨0, by simp [readBlocks, ldRead]⟩
  | cons b bs ih =>
    cases fuel with
    | zero => simp at hf
    | succ f =>
      have wb := hw b List.mem_cons_self
      have e : sections (b :: bs) = ldWrite (b.cid ++ b.data) ++ sections bs := by simp [sections]
      rw [e] at hp
      rcases ldRead_prefix (b.cid ++ b.data) (sections bs) p wb.nonempty wb.size hp with ⟨_, hc⟩ | he | ⟨p', hpe, hp', hs⟩
      · right; exact ⟨0, by unfold readBlocks; rw [hc]; rfl⟩
      · left; exact ⟨_, by unfold readBlocks; rw [he]⟩
      · have hlt : p'.length < f := by
          have hpos := putUvarint_length_pos (b.cid ++ b.data).length
          have hl := congrArg List.length hpe
          simp only [ldWrite, List.length_append] at hl
          simp only [List.length_append] at hpos
          omega
        rcases ih p' f (fun x hx => hw x (List.mem_cons_of_mem _ hx)) hp' hlt with ⟨er, her⟩ | ⟨k, hk⟩
        · left; exact ⟨er, by unfold readBlocks; rw [hs]; simp only [readBlock, wb.split, wb.hash, if_true, her]⟩
        · right; exact ⟨k + 1, by unfold readBlocks; rw [hs]; simp only [readBlock, wb.split, wb.hash, if_true, hk, List.take_succ_cons]⟩

/-- C18 (truncation, CAR): a CAR stream that ends early is an error, except when it is cut exactly between
    two blocks — the one legitimately undetectable case — where it yields the blocks before the cut -/
theorem C18_truncation_car (headerOk : Bytes → Bool) (hashOk : Bytes → Bytes → Bool) (header : Bytes) (bs : List Block)
    (hh : headerOk header = true) (h0 : header ≠ []) (hmax : header.length ≤ maxSection)
    (hw : ∀ b ∈ bs, WFBlock hashOk b) (p : Bytes) (hp : p <+: writeCar header bs) :
    (∃ e, readCar headerOk hashOk .eof p = .error e) ∨ ∃ k, readCar headerOk hashOk .eof p = .ok (bs.take k) := by
  unfold writeCar at hp
  unfold readCar
  rcases ldRead_prefix header (sections bs) p h0 hmax hp with ⟨_, hc⟩ | he | ⟨p', _, hp', hs⟩
  · left; rw [hc]; exact ⟨_, rfl⟩
  · left; rw [he]; exact ⟨_, rfl⟩
  · rw [hs]
    simp only [hh, if_true]
    exact readBlocks_prefix hashOk bs p' _ hw hp' (by omega)

/-- C18 (truncation, DAG-CBOR): a stream that ends early never yields a token — no proper prefix of bytes that the
decoder accepts as one complete item is itself accepted (`Cbor.decode_proper_prefix_none`: the lenient decoder reads an
item from a prefix of its input and never looks further). This is about DECODER INPUT, not only about the encoder's image. -/
theorem C18_truncated_sealed_is_error (b p : Bytes) (n : Node) (h : Cbor.accept b = some n) (hp : p <+: b) (hne : p ≠ b) :
    Cbor.accept p = none := by
  unfold Cbor.accept at h ⊢
  cases hd : Cbor.decode b with
  | none => rw [hd] at h; cases h
  | some m =>
    rw [Cbor.decode_proper_prefix_none b p m hd hp hne]

/-- C18 (truncation, CBOR container): a proper prefix of a container that reads is not a container -/
theorem C18_truncated_cbor_container {T : Type} (unsealFn : Bytes → Option (Bytes × T)) (b p : Bytes) (es : Entries T)
    (h : fromCbor unsealFn .eof b = .ok es) (hp : p <+: b) (hne : p ≠ b) :
    fromCbor unsealFn .eof p = .error .notContainer := by
  unfold fromCbor at h ⊢
  cases hd : Cbor.decode b with
  | none => simp [hd] at h
  | some m =>
    simp only [Cbor.decode_proper_prefix_none b p m hd hp hne]

/-! ### the CID computed while a token streams through (`envelope.CIDReader` / `CIDWriter`) -/

open Ucan.CidStream in
/-- C18 / C08 (reader): for EVERY history of deliveries of the underlying reader — any chunking, data arriving together with
`io.EOF`, reads after the end — if no delivery failed, the CID reported is the CID of exactly the bytes that were delivered, in
order (what the buffered call computes on the same bytes); if any delivery failed, `CID()` is an error, whatever came later -/
theorem C18_cid_reader {C : Type} (cidOf : Bytes → C) (hist : List (Bytes × Outcome)) :
    (anyFail hist = none → (Reader.run {} hist).cid cidOf = .ok (cidOf (delivered hist))) ∧
    (∀ e, anyFail hist = some e → ∃ e', (Reader.run {} hist).cid cidOf = .error e') := by
  obtain ⟨a, b⟩ := run_spec {} hist rfl
  constructor
  · intro h
    obtain ⟨h1, h2⟩ := a h
    simp [Reader.cid, h1, h2]
  · intro e h
    obtain ⟨e', he⟩ := b e h
    exact ⟨e', by simp [Reader.cid, he]⟩

open Ucan.CidStream in
/-- chunking does not matter: two failure-free histories that deliver the same bytes report the same CID -/
theorem C18_cid_reader_chunking {C : Type} (cidOf : Bytes → C) (h1 h2 : List (Bytes × Outcome))
    (hf1 : anyFail h1 = none) (hf2 : anyFail h2 = none) (hd : delivered h1 = delivered h2) :
    (Reader.run {} h1).cid cidOf = (Reader.run {} h2).cid cidOf := by
  rw [(C18_cid_reader cidOf h1).1 hf1, (C18_cid_reader cidOf h2).1 hf2, hd]

open Ucan.CidStream in
/-- C18 / C08 (writer): the CID reported after any sequence of writes is the CID of the concatenation of everything written,
however the encoder split its output into writes -/
theorem C18_cid_writer {C : Type} (cidOf : Bytes → C) (ps : List Bytes) :
    (Writer.run {} ps).cid cidOf = cidOf ps.flatten := by
  simp [Writer.cid, writer_run_spec]

open Ucan.CidStream in
example : anyFail [([1, 2], .ok), ([3], .eof), ([], .eof)] = none ∧
    delivered [([1, 2], .ok), ([3], .eof), ([], .eof)] = [1, 2, 3] ∧
    anyFail [([1, 2], .ok), ([3], .fail 7), ([4], .ok)] = some 7 := by decide

end Ucan.Container
