import Ucan.Driver.Hex
import Ucan.Spec.Glob
namespace Ucan.Driver
open Ucan.Glob

/-- `glob.like <pattern> <string>`: "err" when the pattern is rejected, else "<model> <spec>" -/
def runGlob : List String → Option String
  | ["glob.like", p, s] => do
    let p ← fromHex p; let s ← fromHex s
    match toks p with
    | none => pure "err"
    | some ts => pure s!"{boolStr (globMatch ts s)} {boolStr (matchSpec ts s)}"
  | _ => none

end Ucan.Driver
