import Ucan.Driver.Hex
import Ucan.Model.Meta
/-!
`meta.key <key hex | nil>`                         -> `ok` | `err <class>`   (validateKey)
`meta.get <key hex|nil> <stored hex> <open oracle>` -> `err` | `ok <plaintext hex>`
   open oracle: `x` (secretbox.Open refuses) or the plaintext hex, computed by the harness with x/crypto directly
`meta.len <plaintext length>`                      -> stored length
`meta.entropy <key hex|nil> <drawn hex>`           -> `err` | `ok <nonce hex>`  (the entropy source delivers exactly these bytes, then fails)
-/
namespace Ucan.Driver
open Ucan.Meta

def keyOf (s : String) : Option (Option Bytes) :=
  if s == "nil" then some none else (fromHex s).map some

def runMeta : List String → Option String
  | ["meta.key", key] => do
    let k ← keyOf key
    match validateKey k with
    | .ok _ => pure "ok"
    | .error .noKey => pure "err noKey"
    | .error .keySize => pure "err keySize"
    | .error .zeroKey => pure "err zeroKey"
    | .error _ => pure "err other"
  | ["meta.get", key, stored, oracle] => do
    let k ← keyOf key
    let c ← fromHex stored
    let o : Option Bytes ← if oracle == "x" then some none else (fromHex oracle).map some
    match getEncrypted (fun _ _ _ => o) k (some (.bytes c)) with
    | .ok m => pure ("ok " ++ toHex m)
    | .error _ => pure "err"
  | ["meta.entropy", key, drawn] => do
    let k ← keyOf key
    let d ← fromHex drawn
    match encryptDrawing (fun _ _ _ => []) k (some d) [] with
    | .ok c => pure ("ok " ++ toHex (c.take nonceSize))
    | .error _ => pure "err"
  | ["meta.len", n] => do
    let n ← n.toNat?
    pure (toString (n + 40))
  | _ => none

end Ucan.Driver
