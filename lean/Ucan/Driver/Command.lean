import Ucan.Driver.Hex
import Ucan.Model.Command
namespace Ucan.Driver
open Ucan.Command

def errStr : Err → String
  | .leadingSlash => "leadingSlash"
  | .trailingSlash => "trailingSlash"
  | .lowercase => "lowercase"

/-- decidable rendering of the spec `segments c <+: segments o` -/
def coversSpecB (c o : Bytes) : Bool := (segments c).isPrefixOf (segments o)

def runCommand : List String → Option String
  | ["cmd.parse", s, low] => do
    let s ← fromHex s; let low ← fromHex low
    match parse (fun _ => low) s with
    | .ok c => pure s!"ok {toHex c}"
    | .error e => pure s!"err {errStr e}"
  | ["cmd.covers", c, o] => do
    let c ← fromHex c; let o ← fromHex o
    pure s!"{boolStr (covers c o)} {boolStr (coversSpecB c o)}"
  | ["cmd.segments", c] => do
    let c ← fromHex c
    pure (toHexList (segments c))
  | ["cmd.join", c, xs] => do
    let c ← fromHex c; let xs ← fromHexList xs
    pure (toHex (join c xs))
  | _ => none

end Ucan.Driver
