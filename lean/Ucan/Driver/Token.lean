import Ucan.Driver.Did
import Ucan.Driver.Policy
import Ucan.Model.Token
/-!
`tok.sealed <decoder> <sealed bytes hex> <lower> <sig> <key> <letters>`   (DAG-CBOR entry points)
`tok.cbor   <decoder> <DAG-CBOR bytes hex> <lower> <sig> <key> <letters>` (FromDagCbor entry points: no canonical-form check)
`tok.json   <decoder> <envelope node text> <lower> <sig> <key> <letters>` (DAG-JSON entry points)
decoder ∈ any | dlg | inv.  Oracles (computed by the harness with the libraries directly, never with go-ucan):
lower = hex of strings.ToLower(cmd) or `-`; sig = T/F (the signature verifies under the issuer's key over the
canonical encoding of the SigPayload); key = hex of the canonical marshalling of the issuer key or `-`;
letters = `L…`. Answer: `err` or `ok dlg|inv <field dump as a node>`.
-/
namespace Ucan.Driver
open Ucan.Token Ucan.Envelope

def didText (d : Did.DID) : Node := .str (Did.print b58Encode d)

def optNode (o : Option Node) : Node := match o with | some n => n | none => .null

def k (s : String) : Bytes := s.toUTF8.toList

/-- arguments and metadata are compared as sets of entries: sorted by key (bytewise) -/
def bytesLt : Bytes → Bytes → Bool
  | [], [] => false
  | [], _ :: _ => true
  | _ :: _, [] => false
  | a :: as, b :: bs => a.toNat < b.toNat || (a == b && bytesLt as bs)

def sortEntries (kvs : List (Bytes × Node)) : List (Bytes × Node) :=
  kvs.foldl (fun acc kv =>
    let (lo, hi) := acc.partition (fun e => bytesLt e.1 kv.1)
    lo ++ [kv] ++ hi) []

def dlgDump (t : Dlg) : Node :=
  .map [(k "iss", didText t.iss), (k "aud", didText t.aud), (k "sub", optNode (t.sub.map didText)),
    (k "cmd", .str t.cmd), (k "pol", Policy.toIPLD t.pol), (k "nonce", .bytes t.nonce),
    (k "meta", .map (sortEntries t.metadata)), (k "nbf", optNode (t.nbf.map .int)), (k "exp", optNode (t.exp.map .int))]

def invDump (t : Inv) : Node :=
  .map [(k "iss", didText t.iss), (k "sub", didText t.sub), (k "aud", optNode (t.aud.map didText)),
    (k "cmd", .str t.cmd), (k "args", .map (sortEntries t.args)), (k "prf", .list (t.prf.map .link)),
    (k "meta", .map (sortEntries t.metadata)), (k "nonce", .bytes t.nonce), (k "exp", optNode (t.exp.map .int)),
    (k "iat", optNode (t.iat.map .int)), (k "cause", optNode (t.cause.map .link))]

def decodeWith (decoder : String) (env : TEnv Bytes) (n : Node) : Option String :=
  if decoder == "any" then
    match anyFromIPLD env n with
    | .error _ => some "err"
    | .ok (.inl d) => some ("ok dlg " ++ nodeToStr (dlgDump d))
    | .ok (.inr i) => some ("ok inv " ++ nodeToStr (invDump i))
  else if decoder == "dlg" then
    match dlgFromIPLD env n with
    | .error _ => some "err"
    | .ok d => some ("ok dlg " ++ nodeToStr (dlgDump d))
  else if decoder == "inv" then
    match invFromIPLD env n with
    | .error _ => some "err"
    | .ok i => some ("ok inv " ++ nodeToStr (invDump i))
  else none

def mkEnv (lower sig key letters : String) : Option (TEnv Bytes) := do
  let isL ← parseLetters letters
  let low : Option Bytes ← if lower == "-" then some none else (fromHex lower).map some
  let canon : Option Bytes ← if key == "-" then some none else (fromHex key).map some
  pure { mbDecode := mbDecode, marshal := fun _ kb => kb, unmarshal := fun _ _ => canon,
         verify := fun _ _ _ => sig == "T",
         lower := fun s => low.getD (s ++ [0]),   -- no oracle: nothing is its own lower-casing
         isLetter := isL }

def runToken : List String → Option String
  | ["tok.sealed", decoder, bytes, lower, sig, key, letters] => do
    let b ← fromHex bytes
    let env ← mkEnv lower sig key letters
    match Cbor.accept b with
    | none => pure "err"
    | some n => decodeWith decoder env n
  | ["tok.cbor", decoder, bytes, lower, sig, key, letters] => do
    -- the FromDagCbor entry points: no canonical-form check on the bytes (that is FromSealed's), any key order is read
    let b ← fromHex bytes
    let env ← mkEnv lower sig key letters
    match Cbor.decode b with
    | none => pure "err"
    | some n => decodeWith decoder env n
  | ["tok.json", decoder, node, lower, sig, key, letters] => do
    let n ← nodeFromStr node
    let env ← mkEnv lower sig key letters
    decodeWith decoder env n
  | _ => none

end Ucan.Driver
