import Ucan.Driver.NodeCodec
import Ucan.Model.SelectorParse
import Ucan.Spec.Selector
namespace Ucan.Driver
open Ucan.Selector

/-- oracle for `\p{L}`: "L" followed by comma-separated decimal code points, e.g. `L233,955`; `L` = none -/
def parseLetters (s : String) : Option (Nat → Bool) :=
  if !s.startsWith "L" then none else
  let body := (s.drop 1).toString
  let items := if body.isEmpty then [] else body.splitOn ","
  let nums := items.filterMap String.toNat?
  if nums.length ≠ items.length then none else some (fun r => nums.contains r)

def intStr (i : Int) : String := toString i

/-- literal dump of a Go `segment` as seen through its exported accessors -/
def segDump (s : Seg) : String :=
  let fl := (if s.identity then "i" else "-") ++ (if s.optional then "o" else "-") ++ (if s.iterator then "t" else "-")
  let sl := match s.slice with
    | none => "-"
    | some (a, b) => s!"{a},{b}"
  s!"{fl}:{sl}:{toHex s.field}:{s.index}:{toHex s.str}"

def selDump (sel : List Seg) : String :=
  if sel.isEmpty then "." else "/".intercalate (sel.map segDump)

def resStr : Except Err (Option Node) → String
  | .error _ => "err"
  | .ok none => "none"
  | .ok (some n) => "ok " ++ nodeToStr n

def runSelector : List String → Option String
  | ["sel.parse", txt, letters] => do
    let txt ← fromHex txt; let isL ← parseLetters letters
    match parse isL txt with
    | .error .panicSliceBounds => pure "panic"
    | .error _ => pure "err"
    | .ok sel => pure s!"ok {selDump sel} {toHex (print sel)}"
  | ["sel.select", txt, letters, node] => do
    let txt ← fromHex txt; let isL ← parseLetters letters; let n ← nodeFromStr node
    match parse isL txt with
    | .error .panicSliceBounds => pure "panic"
    | .error _ => pure "perr"
    | .ok sel =>
      let r := select sel n
      let r' := resolveSpec Lat.code sel (some n)
      -- further fields: the answers under the other readings C12 allows (Model/Selector.lean: `Lat` — a failing optional slice,
      -- an optional iterator on null and on a scalar), each distinct answer once
      let outs : List IterOut := [.err, .none, .empty]
      -- (the optional iterator on null keeps today's answer, the empty list: the UCAN specification's selector table, which the
      -- repository's own tests pin, fixes `.[]?` on null; "no value" is treated like null. The theorems hold for every `Lat`.)
      let lats : List Lat := [false, true].flatMap fun sl => outs.map fun b =>
        { slice := sl, iterNull := .empty, iterScalar := b }
      let alts := (lats.map fun l => resStr (selectL l sel n)).eraseDups.filter (· != resStr r)
      pure (String.intercalate " | " ([resStr r, resStr r'] ++ alts))
  | _ => none

end Ucan.Driver
