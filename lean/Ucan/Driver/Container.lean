import Ucan.Driver.Hex
import Ucan.Model.Container
/-!
`ctn.read <format> <ending> <bytes hex> <oracle>`
format ∈ car | carb64 | cbor | cborb64 ; ending ∈ eof | fault
oracle: `;`-separated `H<section hex>=T|F` (go-cid: the stored CID hashes to the data) and `U<sealed hex>=<cid hex>|-`
(token.FromSealed on the entry: its CID, or `-` when refused), for every section / entry the harness's own parser finds.
Answer: `err` or `ok <sorted cid hexes joined by ,>` (`ok -` for an empty container).
Base64 and the CAR header check are executable driver code (parameters of the theorems).
-/
namespace Ucan.Driver
open Ucan.Container

def b64Val (c : UInt8) : Option Nat :=
  let n := c.toNat
  if 65 ≤ n ∧ n ≤ 90 then some (n - 65)
  else if 97 ≤ n ∧ n ≤ 122 then some (n - 71)
  else if 48 ≤ n ∧ n ≤ 57 then some (n + 4)
  else if n = 43 then some 62
  else if n = 47 then some 63
  else none

/-- `base64.StdEncoding` decoding as `base64.NewDecoder` does it: CR/LF ignored, padding required -/
partial def b64Decode (s : Bytes) : Option Bytes :=
  let s := s.filter (fun c => c != 10 && c != 13)
  let rec go : Bytes → Option Bytes
    | [] => some []
    | [a, b, 61, 61] => do
      let x ← b64Val a; let y ← b64Val b
      if y % 16 ≠ 0 then none else pure [UInt8.ofNat (x * 4 + y / 16)]
    | [a, b, c, 61] => do
      let x ← b64Val a; let y ← b64Val b; let z ← b64Val c
      if z % 4 ≠ 0 then none else pure [UInt8.ofNat (x * 4 + y / 16), UInt8.ofNat ((y % 16) * 16 + z / 4)]
    | a :: b :: c :: d :: r => do
      let x ← b64Val a; let y ← b64Val b; let z ← b64Val c; let w ← b64Val d
      let rest ← go r
      pure (UInt8.ofNat (x * 4 + y / 16) :: UInt8.ofNat ((y % 16) * 16 + z / 4) :: UInt8.ofNat ((z % 4) * 64 + w) :: rest)
    | _ => none
  go s

def isLinkNode : Node → Bool
  | .link _ => true
  | _ => false

/-- `readHeader` + the version test of `readCar`: `{roots: [links…], version: 1}` -/
def carHeaderOk (h : Bytes) : Bool :=
  match Cbor.decode h with
  | some (.map kvs) =>
    kvs.length == 2 &&
    (match Node.lookup [114, 111, 111, 116, 115] kvs with
      | some (.list rs) => rs.all isLinkNode
      | _ => false) &&
    (match Node.lookup [118, 101, 114, 115, 105, 111, 110] kvs with
      | some (.int 1) => true
      | _ => false)
  | _ => false

/-- oracle entries: `H<section hex>=T|F` (the stored CID hashes to the data) and `U<sealed bytes hex>=<cid hex>|-` -/
def parseOracle (s : String) : Option (List (Bytes × Bool) × List (Bytes × Option Bytes)) :=
  if s == "-" then some ([], []) else do
  let items ← (s.splitOn ";").mapM (fun e =>
    match e.splitOn "=" with
    | [k, v] =>
      if k.startsWith "H" then do
        let kb ← fromHex (k.drop 1).toString
        pure (Sum.inl (kb, v == "T"))
      else if k.startsWith "U" then do
        let kb ← fromHex (k.drop 1).toString
        let cb : Option Bytes ← if v == "-" then some none else (fromHex v).map some
        pure (Sum.inr (kb, cb))
      else none
    | _ => none)
  pure (items.filterMap (fun x => match x with | .inl a => some a | _ => none),
        items.filterMap (fun x => match x with | .inr a => some a | _ => none))

def sortHex (l : List String) : List String := l.foldl (fun acc x =>
  let (lo, hi) := acc.partition (· < x); lo ++ [x] ++ hi) []

partial def runContainer : List String → Option String
  | ["ctn.read", fmt, ending, bytes, oracle, _variant] => runContainer ["ctn.read", fmt, ending, bytes, oracle]
  | ["ctn.read", fmt, ending, bytes, oracle] => do
    let b ← fromHex bytes
    let orc ← parseOracle oracle
    let e : Ending := if ending == "fault" then .fault else .eof
    let hashOk : Bytes → Bytes → Bool := fun c d =>
      match orc.1.find? (fun o => o.1 == c ++ d) with
      | some o => o.2
      | none => false
    let unsealFn : Bytes → Option (Bytes × Unit) := fun d =>
      match orc.2.find? (fun o => o.1 == d) with
      | some o => o.2.map (fun c => (c, ()))
      | none => none
    let input : Option Bytes :=
      if fmt == "carb64" || fmt == "cborb64" then b64Decode b else some b
    match input with
    | none => pure "err"
    | some inp =>
      let res := if fmt == "car" || fmt == "carb64" then fromCar carHeaderOk hashOk unsealFn e inp
                 else fromCbor unsealFn e inp
      match res with
      | .error _ => pure "err"
      | .ok es =>
        let cids := sortHex ((es.map (fun x => toHex x.1)).eraseDups)
        pure ("ok " ++ (if cids.isEmpty then "-" else ",".intercalate cids))
  | _ => none

end Ucan.Driver
