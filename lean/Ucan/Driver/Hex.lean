import Ucan.Basic
/-! Line-protocol helpers: hex byte strings ("-" is the empty string), lists joined by ','. -/
namespace Ucan.Driver

def hexDigit (n : Nat) : Char :=
  if n < 10 then Char.ofNat (48 + n) else Char.ofNat (87 + n)

def toHex (bs : Bytes) : String :=
  if bs.isEmpty then "-" else
  String.ofList (bs.foldr (fun b acc => hexDigit (b.toNat / 16) :: hexDigit (b.toNat % 16) :: acc) [])

def hexVal (c : Char) : Option Nat :=
  if '0' ≤ c ∧ c ≤ '9' then some (c.toNat - 48)
  else if 'a' ≤ c ∧ c ≤ 'f' then some (c.toNat - 87)
  else if 'A' ≤ c ∧ c ≤ 'F' then some (c.toNat - 55)
  else none

def fromHexChars : List Char → Option Bytes
  | [] => some []
  | [_] => none
  | a :: b :: r => do
    let x ← hexVal a
    let y ← hexVal b
    let rest ← fromHexChars r
    pure (UInt8.ofNat (x * 16 + y) :: rest)

def fromHex (s : String) : Option Bytes :=
  if s == "-" then some [] else fromHexChars s.toList

/-- list of byte strings: "." is the empty list, otherwise hex items joined by ',' -/
def toHexList (l : List Bytes) : String :=
  if l.isEmpty then "." else ",".intercalate (l.map toHex)

def fromHexList (s : String) : Option (List Bytes) :=
  if s == "." then some [] else (s.splitOn ",").mapM fromHex

def boolStr (b : Bool) : String := if b then "t" else "f"

end Ucan.Driver
