import Ucan.Driver.Hex
import Ucan.Model.Immut
/-!
`imm.op <op> <argument keys in insertion order> <metadata keys in insertion order>`
op ∈ argsToIPLD | argsString | metaString | argsIter | metaIter | executionAllowed | seal
Answer: `<argument key order afterwards> <metadata key order afterwards> <key order of the output>`
(lists of hex keys joined by `,`; `.` = empty). Values are irrelevant to the order and are fixed.
-/
namespace Ucan.Driver
open Ucan.Immut

def outKeys : Out → List Bytes
  | .node (.map kvs) => kvs.map (·.1)
  | .entries es => es.map (·.1)
  | .keys ks => ks
  | _ => []

partial def runImmut : List String → Option String
  | ["imm.op", op, aks, mks, _origin] => runImmut ["imm.op", op, aks, mks]
  | ["imm.op", op, aks, mks] => do
    let ak ← fromHexList aks
    let mk ← fromHexList mks
    let o : ROp ← match op with
      | "argsToIPLD" => some .argsToIPLD | "argsString" => some .argsString | "metaString" => some .metaString
      | "argsIter" => some .argsIter | "metaIter" => some .metaIter | "executionAllowed" => some .executionAllowed
      | "seal" => some .seal | _ => none
    let s : TokState := { argKeys := ak, argVals := ak.map (fun k => (k, Node.int 1)),
                          metaKeys := mk, metaVals := mk.map (fun k => (k, Node.int 1)) }
    let (s', out) := runOp o s
    pure s!"{toHexList s'.argKeys} {toHexList s'.metaKeys} {toHexList (outKeys out)}"
  | _ => none

end Ucan.Driver
