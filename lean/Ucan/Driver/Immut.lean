import Ucan.Driver.Hex
import Ucan.Model.Immut
/-!
`imm.op <op> <argument keys in insertion order> <metadata keys in insertion order>`
op ∈ argsToIPLD | argsString | metaString | argsIter | metaIter | executionAllowed | seal |
     executionAllowedHook | executionAllowedMissing | executionAllowedHookDenied | executionAllowedHookClone
Answer: `<argument key order afterwards> <metadata key order afterwards> <key order of the output>
         <number of written cells in the spare capacity of the shared delegations' policy slices>`
`imm.pair <op X> <op Y> <argument keys> <metadata keys>`: the same answer for Y run after X on one token
(lists of hex keys joined by `,`; `.` = empty). Values are irrelevant to the order and are fixed.
-/
namespace Ucan.Driver
open Ucan.Immut

def outKeys : Out → List Bytes
  | .node (.map kvs) => kvs.map (·.1)
  | .entries es => es.map (·.1)
  | .keys ks => ks
  | _ => []

def opOfName : String → Option ROp
  | "argsToIPLD" => some .argsToIPLD | "argsString" => some .argsString | "metaString" => some .metaString
  | "argsIter" => some .argsIter | "metaIter" => some .metaIter | "executionAllowed" => some .executionAllowed
  | "seal" => some .seal | "executionAllowedHook" => some .executionAllowedHook
  | "executionAllowedMissing" => some .executionAllowedMissing
  | "executionAllowedDenied" => some .executionAllowedDenied
  | "executionAllowedHookDenied" => some .executionAllowedHookDenied
  | "executionAllowedHookClone" => some .executionAllowedHookClone | _ => none

def immState (ak mk : List Bytes) : TokState :=
  { argKeys := ak, argVals := ak.map (fun k => (k, Node.int 1)),
    metaKeys := mk, metaVals := mk.map (fun k => (k, Node.int 1)),
    proofs := [[1], [2]], dlgPolicySpare := List.replicate 7 none }

def immAnswer (s' : TokState) (out : Out) : String :=
  s!"{toHexList s'.argKeys} {toHexList s'.metaKeys} {toHexList (outKeys out)} {(s'.dlgPolicySpare.filter Option.isSome).length}"

partial def runImmut : List String → Option String
  | ["imm.op", op, aks, mks, _origin] => runImmut ["imm.op", op, aks, mks]
  | ["imm.op", op, aks, mks] => do
    let ak ← fromHexList aks
    let mk ← fromHexList mks
    let o ← opOfName op
    let (s', out) := runOp o (immState ak mk)
    pure (immAnswer s' out)
  | ["imm.pair", x, y, aks, mks, _origin] => runImmut ["imm.pair", x, y, aks, mks]
  | ["imm.pair", x, y, aks, mks] => do
    let ak ← fromHexList aks
    let mk ← fromHexList mks
    let ox ← opOfName x
    let oy ← opOfName y
    let (s1, _) := runOp ox (immState ak mk)
    let (s2, out) := runOp oy s1
    pure (immAnswer s2 out)
  | _ => none

end Ucan.Driver
