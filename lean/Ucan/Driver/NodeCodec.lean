import Ucan.Driver.Hex
import Ucan.Model.Node
/-!
Text form of IPLD nodes on the line protocol (no spaces):
`n` null, `T`/`F` bool, `i<dec>` int, `d<16 hex>` float bits, `s<hex>` string, `b<hex>` bytes,
`k<hex>` link, `l(<node>,…)` list, `m(<keyhex>:<node>,…)` map. Empty hex is the empty string.
-/
namespace Ucan.Driver

def hexOf (bs : Bytes) : String :=
  String.ofList (bs.foldr (fun b acc => hexDigit (b.toNat / 16) :: hexDigit (b.toNat % 16) :: acc) [])

partial def nodeToStr : Node → String
  | .null => "n"
  | .bool true => "T"
  | .bool false => "F"
  | .int i => s!"i{i}"
  | .float b =>
    let h := hexOf [UInt8.ofNat (b.toNat / 2^56), UInt8.ofNat (b.toNat / 2^48 % 256), UInt8.ofNat (b.toNat / 2^40 % 256),
      UInt8.ofNat (b.toNat / 2^32 % 256), UInt8.ofNat (b.toNat / 2^24 % 256), UInt8.ofNat (b.toNat / 2^16 % 256),
      UInt8.ofNat (b.toNat / 2^8 % 256), UInt8.ofNat (b.toNat % 256)]
    s!"d{h}"
  | .str s => "s" ++ hexOf s
  | .bytes s => "b" ++ hexOf s
  | .link s => "k" ++ hexOf s
  | .list xs => "l(" ++ ",".intercalate (xs.map nodeToStr) ++ ")"
  | .map kvs => "m(" ++ ",".intercalate (kvs.map (fun (k, v) => hexOf k ++ ":" ++ nodeToStr v)) ++ ")"

def takeHex : List Char → Bytes × List Char
  | a :: b :: r =>
    match hexVal a, hexVal b with
    | some x, some y => let (bs, rest) := takeHex r; (UInt8.ofNat (x * 16 + y) :: bs, rest)
    | _, _ => ([], a :: b :: r)
  | r => ([], r)

def takeInt (cs : List Char) : Option (Int × List Char) :=
  let (neg, cs) := match cs with | '-' :: r => (true, r) | r => (false, r)
  let ds := cs.takeWhile Char.isDigit
  if ds.isEmpty then none else
  let v : Nat := ds.foldl (fun acc d => acc * 10 + (d.toNat - 48)) 0
  some (if neg then -(v : Int) else v, cs.dropWhile Char.isDigit)

mutual
partial def parseNode : List Char → Option (Node × List Char)
  | 'n' :: r => some (.null, r)
  | 'T' :: r => some (.bool true, r)
  | 'F' :: r => some (.bool false, r)
  | 'i' :: r => do let (v, r) ← takeInt r; pure (.int v, r)
  | 'd' :: r =>
    let (bs, r) := takeHex r
    if bs.length = 8 then some (.float (UInt64.ofNat (bs.foldl (fun acc b => acc * 256 + b.toNat) 0)), r) else none
  | 's' :: r => let (bs, r) := takeHex r; some (.str bs, r)
  | 'b' :: r => let (bs, r) := takeHex r; some (.bytes bs, r)
  | 'k' :: r => let (bs, r) := takeHex r; some (.link bs, r)
  | 'l' :: '(' :: ')' :: r => some (.list [], r)
  | 'l' :: '(' :: r => do let (xs, r) ← parseItems r; pure (.list xs, r)
  | 'm' :: '(' :: ')' :: r => some (.map [], r)
  | 'm' :: '(' :: r => do let (kvs, r) ← parseEntries r; pure (.map kvs, r)
  | _ => none
partial def parseItems (cs : List Char) : Option (List Node × List Char) := do
  let (x, r) ← parseNode cs
  match r with
  | ',' :: r => let (xs, r) ← parseItems r; pure (x :: xs, r)
  | ')' :: r => pure ([x], r)
  | _ => none
partial def parseEntries (cs : List Char) : Option (List (Bytes × Node) × List Char) := do
  let (k, r) := takeHex cs
  match r with
  | ':' :: r =>
    let (x, r) ← parseNode r
    match r with
    | ',' :: r => let (xs, r) ← parseEntries r; pure ((k, x) :: xs, r)
    | ')' :: r => pure ([(k, x)], r)
    | _ => none
  | _ => none
end

def nodeFromStr (s : String) : Option Node :=
  match parseNode s.toList with
  | some (n, []) => some n
  | _ => none

end Ucan.Driver
