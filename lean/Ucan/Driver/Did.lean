import Ucan.Driver.Hex
import Ucan.Model.Did
/-!
`did.parse <texthex>`                 -> `err` | `ok <printed text hex>`
`did.pubkey <texthex> <oracle>`       -> `perr` | `err` | `ok <canonical key bytes hex>`
   oracle = `-` (the per-codec unmarshaller refuses the key material) or the hex of the canonical
   marshalling of the key it yields, both computed by the harness with the crypto libraries directly
`did.frompub <code> <keybyteshex>`    -> printed did:key text (hex)
Base58btc here is executable driver code (not part of any proof): the theorems take it as a parameter.
-/
namespace Ucan.Driver
open Ucan.Did

def b58Alphabet : List Char := "123456789ABCDEFGHJKLMNPQRSTUVWXYZabcdefghijkmnopqrstuvwxyz".toList

def b58Index (c : Char) : Option Nat := b58Alphabet.findIdx? (· == c)

def bytesToNat (b : Bytes) : Nat := b.foldl (fun acc x => acc * 256 + x.toNat) 0

partial def natToBytes (n : Nat) : Bytes :=
  let rec go (n : Nat) (acc : Bytes) : Bytes := if n = 0 then acc else go (n / 256) (UInt8.ofNat (n % 256) :: acc)
  go n []

partial def natToB58 (n : Nat) : List Char :=
  let rec go (n : Nat) (acc : List Char) : List Char :=
    if n = 0 then acc else go (n / 58) ((b58Alphabet.getD (n % 58) '?') :: acc)
  go n []

def b58Encode (b : Bytes) : Bytes :=
  let zeros := (b.takeWhile (· == 0)).length
  let cs := List.replicate zeros '1' ++ natToB58 (bytesToNat b)
  cs.map (fun c => UInt8.ofNat c.toNat)

def b58Decode (s : Bytes) : Option Bytes := do
  let cs := s.map (fun b => Char.ofNat b.toNat)
  let idx ← cs.mapM b58Index
  let zeros := (cs.takeWhile (· == '1')).length
  let n := idx.foldl (fun acc d => acc * 58 + d) 0
  pure (List.replicate zeros 0 ++ natToBytes n)

/-- `multibase.Decode` as far as `did.Parse` can tell: only base58btc yields an acceptable result -/
def mbDecode (s : Bytes) : Option (Byte × Bytes) :=
  match s with
  | [] => none
  | p :: r => if p = zChar then (b58Decode r).map (fun b => (zChar, b)) else none

def runDid : List String → Option String
  | ["did.parse", txt] => do
    let t ← fromHex txt
    match parse mbDecode t with
    | .error _ => pure "err"
    | .ok d => pure ("ok " ++ toHex (print b58Encode d))
  | ["did.pubkey", txt, oracle] => do
    let t ← fromHex txt
    match parse mbDecode t with
    | .error _ => pure "perr"
    | .ok d =>
      let canon : Option Bytes ← if oracle == "-" then some none else (fromHex oracle).map some
      -- keys are represented by their canonical marshalling
      match pubKey (K := Bytes) (fun _ k => k) (fun _ _ => canon) d with
      | .ok k => pure ("ok " ++ toHex k)
      | .error _ => pure "err"
  | ["did.frompub", code, key] => do
    let c ← code.toNat?
    let k ← fromHex key
    pure (toHex (print b58Encode (fromPubKey (K := Bytes) (fun _ k => k) c k)))
  | _ => none

end Ucan.Driver
