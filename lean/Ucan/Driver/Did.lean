import Ucan.Driver.Hex
import Ucan.Model.Did
import Ucan.Model.Base58
/-!
`did.parse <texthex>`                 -> `err` | `ok <printed text hex>`
`did.pubkey <texthex> <oracle>`       -> `perr` | `err` | `ok <canonical key bytes hex>`
   oracle = `-` (the per-codec unmarshaller refuses the key material) or the hex of the canonical
   marshalling of the key it yields, both computed by the harness with the crypto libraries directly
`did.frompub <code> <keybyteshex>`    -> printed did:key text (hex)
Base58btc is `Model/Base58.lean`, the functions `C16_*_base58` are about.
-/
namespace Ucan.Driver
open Ucan.Did

/-- base-58 and multibase are the MODEL's functions (`Model/Base58.lean`, round trip proved in `Lemmas/Base58.lean`) -/
def b58Encode (b : Bytes) : Bytes := Base58.encode b

def mbDecode (s : Bytes) : Option (Byte × Bytes) :=
  match s with
  | [] => none
  | p :: r => if p = zChar then (Base58.decode r).map (fun b => (zChar, b)) else none

def runDid : List String → Option String
  | ["did.parse", txt] => do
    let t ← fromHex txt
    match parse mbDecode t with
    | .error _ => pure "err"
    | .ok d => pure ("ok " ++ toHex (print b58Encode d))
  | ["did.pubkey", txt, oracle] => do
    let t ← fromHex txt
    match parse mbDecode t with
    | .error _ => pure "perr"
    | .ok d =>
      let canon : Option Bytes ← if oracle == "-" then some none else (fromHex oracle).map some
      -- keys are represented by their canonical marshalling
      match pubKey (K := Bytes) (fun _ k => k) (fun _ _ => canon) d with
      | .ok k => pure ("ok " ++ toHex k)
      | .error _ => pure "err"
  | ["did.frompub", code, key] => do
    let c ← code.toNat?
    let k ← fromHex key
    pure (toHex (print b58Encode (fromPubKey (K := Bytes) (fun _ k => k) c k)))
  | _ => none

end Ucan.Driver
