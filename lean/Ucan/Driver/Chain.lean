import Ucan.Driver.Policy
import Ucan.Model.Chain
import Ucan.Model.Immut
/-!
`chain.allowed <inv> <prf> <dlgs> <now> <args> <hook>`
* inv  = `iss,sub,aud,cmdhex,exp`            (aud, exp: `-` when absent; principals are small numbers)
* prf  = `.`-separated indexes into the delegation table, `x` for a CID the loader does not know, `-` for none
* dlgs = `#`-separated `iss~aud~sub~cmdhex~policy~nbf~exp` (sub/nbf/exp `-` when absent, policy `P(...)`), `-` for none
* now  = integer; bounds are integers on the same scale
* args = node text; hook = `-` (no hook), `!` (hook fails) or node text (the arguments the hook returns)
Answer: `ok` or `deny <failing clause groups>` (load, principal, command, time, policy).
-/
namespace Ucan.Driver
open Ucan.Chain Ucan.Policy

def optInt (s : String) : Option (Option Int) :=
  if s == "-" then some none else (String.toInt? s).map some

def optNat (s : String) : Option (Option Nat) :=
  if s == "-" then some none else (String.toNat? s).map some

def parseDlg (s : String) : Option (Dlg Nat) :=
  match s.splitOn "~" with
  | [iss, aud, sub, cmd, pol, nbf, exp] => do
    let iss ← iss.toNat?; let aud ← aud.toNat?; let sub ← optNat sub
    let cmd ← fromHex cmd
    let pol ← parsePolicy (fun _ => false) pol
    let nbf ← optInt nbf; let exp ← optInt exp
    pure { iss, aud, sub, cmd, pol, nbf, exp }
  | _ => none

def principalB (inv : Inv Nat (Option Nat) Unit) (ds : List (Dlg Nat)) : Bool :=
  !ds.isEmpty &&
  (match ds.head? with | some d => d.aud == inv.iss | none => false) &&
  ((List.range (ds.length - 1)).all fun i =>
    match ds[i]?, ds[i+1]? with | some a, some b => a.iss == b.aud | _, _ => false) &&
  (match ds.getLast? with | some d => d.sub == some d.iss | none => false) &&
  ds.all (fun d => d.sub == some inv.sub)

def commandB (inv : Inv Nat (Option Nat) Unit) (ds : List (Dlg Nat)) : Bool :=
  (match ds.head? with | some d => Command.covers d.cmd inv.cmd | none => true) &&
  ((List.range (ds.length - 1)).all fun i =>
    match ds[i]?, ds[i+1]? with | some a, some b => Command.covers b.cmd a.cmd | _, _ => false)

/-- `args.Args.ToIPLD`: what the validation matches the policies on is ONE map with the keys in sorted order, in whatever
order the caller (or the argument hook) supplied them. The line carries the supply order. -/
def argsToIPLD : Node → Node
  | .map kvs => Immut.argsNode kvs
  | n => n

/-- a hook that works on the writeable clone it was given: the listed entries replace the values of existing keys, new keys
are added -/
def overrideArgs (orig a : Node) : Node :=
  match orig, a with
  | .map o, .map n =>
    .map ((o.map fun kv => (kv.1, (Node.lookup kv.1 n).getD kv.2)) ++ n.filter (fun kv => (Node.lookup kv.1 o).isNone))
  | _, _ => a

partial def runChain : List String → Option String
  | ["chain.allowed", inv, prf, dlgs, now, args, hook, _irrelevant] => runChain ["chain.allowed", inv, prf, dlgs, now, args, hook]
  | ["chain.allowed", inv, prf, dlgs, now, args, hook] => do
    let table ← if dlgs == "-" then some [] else (dlgs.splitOn "#").mapM parseDlg
    let prf : List (Option Nat) ← if prf == "-" then some [] else
      (prf.splitOn ".").mapM (fun s => if s == "x" || s.startsWith "v" || s.startsWith "e" || s.startsWith "n" then some none else (s.toNat?).map some)
    let now ← now.toInt?
    let args := argsToIPLD (← nodeFromStr args)
    match inv.splitOn "," with
    | [iss, sub, aud, cmd, exp] =>
      let iss ← iss.toNat?; let sub ← sub.toNat?; let aud ← optNat aud
      let cmd ← fromHex cmd; let exp ← optInt exp
      let i : Inv Nat (Option Nat) Unit :=
        { iss, sub, cmd, args, prf, exp, aud, nonce := (), metadata := (), cause := (), iat := () }
      let ld : Option Nat → Option (Dlg Nat) := fun c => match c with | some k => table[k]? | none => none
      let hookF : Option (Node → Option Node) ←
        if hook == "-" then some none
        else if hook == "!" then some (some (fun _ => none))
        else if hook.startsWith "~" then
          -- the hook keeps the arguments it was given and overrides / adds the listed entries
          (nodeFromStr ((hook.drop 1).toString)).map (fun a => some (fun orig => some (argsToIPLD (overrideArgs orig a))))
        else (nodeFromStr hook).map (fun a => some (fun _ => some (argsToIPLD a)))
      let verdict := match hookF with
        | none => allowed ld now i
        | some h => allowedWithHook ld now i h
      let checked : Node := match hookF with
        | none => args
        | some h => (h args).getD args
      match verdict with
      | .ok () => pure "ok"
      | .error e =>
        -- which clause groups of the specification fail (for attributing a disagreement to a property)
        match loadProofs ld prf with
        | .error _ => pure "deny load"
        | .ok ds =>
          let cl := (if principalB i ds then [] else ["principal"]) ++ (if commandB i ds then [] else ["command"]) ++
            (if (verifyTime now i ds).isOk then [] else ["time"]) ++
            (if (verifyArgs ds checked).isOk then [] else ["policy"]) ++
            (if e == .hookError then ["hook"] else [])
          if cl.isEmpty then pure "driver-inconsistent" else pure ("deny " ++ ",".intercalate cl)
    | _ => none
  | ["chain.history", inv, prf, dlgs, args, steps] => do
    -- the same invocation validated several times: each step is `<loader>/<hook>` (loader = `all`, `none` or
    -- `.`-separated indexes of the loadable table entries) or `T` (time passes: now goes from 0 to 3)
    let rec go (now : Int) (acc : List String) : List String → Option (List String)
      | [] => some acc.reverse
      | "T" :: rest => go 3 acc rest
      | st :: rest =>
        match st.splitOn "/" with
        | [ldSpec, hook] =>
          let keep : Option (Nat → Bool) :=
            if ldSpec == "all" then some (fun _ => true)
            else if ldSpec == "none" then some (fun _ => false)
            else ((ldSpec.splitOn ".").mapM String.toNat?).map (fun l k => l.contains k)
          match keep with
          | none => none
          | some keep =>
            -- restrict the table by replacing unavailable entries' indexes in prf with `x`
            let prf' := ".".intercalate ((prf.splitOn ".").map (fun p =>
              match p.toNat? with
              | some k => if keep k then p else "x"
              | none => p))
            match runChain ["chain.allowed", inv, prf', dlgs, toString now, args, hook] with
            | some r => go now (r :: acc) rest
            | none => none
        | _ => none
    let rs ← go 0 [] (steps.splitOn ",")
    pure (";".intercalate rs)
  | ["chain.validat", kind, nbf, exp, t] => do
    let nbf ← optInt nbf; let exp ← optInt exp; let t ← t.toInt?
    if kind == "dlg" then
      let d : Dlg Nat := { iss := 0, aud := 0, sub := none, cmd := [], pol := [], nbf, exp }
      pure (boolStr (d.validAt t))
    else
      let i : Inv Nat Nat Unit :=
        { iss := 0, sub := 0, cmd := [], args := .null, prf := [], exp, aud := none,
          nonce := (), metadata := (), cause := (), iat := () }
      pure (boolStr (i.validAt t))
  | _ => none

end Ucan.Driver
