import Ucan.Driver.NodeCodec
import Ucan.Model.Cbor
namespace Ucan.Driver
open Ucan.Cbor

def runCbor : List String → Option String
  | ["cbor.encode", node] => do
    let n ← nodeFromStr node
    pure (toHex (encode n))
  | ["cbor.accept", bytes] => do
    let b ← fromHex bytes
    match accept b with
    | none => pure "rej"
    | some n => pure ("acc " ++ nodeToStr n)
  | "sealed.reenc" :: bytes :: _ => do
    -- CBOR layer only: is the byte string the canonical encoding of what it decodes to?
    let b ← fromHex bytes
    match accept b with
    | none => pure "rej"
    | some _ => pure "acc"
  | _ => none

end Ucan.Driver
