import Ucan.Driver.Hex
import Ucan.Model.CidStream
/-!
`cids.read  <delivery>,<delivery>,…`   delivery = `<hex of the bytes delivered or ->:<o|e|f<n>>`  (ok, io.EOF, failure number n)
`cids.write <hex or ->,<hex or ->,…`    the chunks handed to Write
Answer: `err` (CID() is an error) or `ok <hex of the bytes that have been hashed>`: the harness compares the real CID with the
CID of those bytes.
-/
namespace Ucan.Driver
open Ucan.CidStream

def parseDelivery (s : String) : Option (Bytes × Outcome) :=
  match s.splitOn ":" with
  | [d, o] => do
    let bytes ← fromHex d
    let oc ← if o == "o" then some Outcome.ok else if o == "e" then some Outcome.eof
      else if o.startsWith "f" then (o.drop 1).toNat?.map Outcome.fail else none
    pure (bytes, oc)
  | _ => none

def runCidStream : List String → Option String
  | ["cids.read", hist] => do
    let ds ← (hist.splitOn ",").mapM parseDelivery
    match (Reader.run {} ds).cid (fun b => b) with
    | .ok b => pure ("ok " ++ toHex b)
    | .error _ => pure "err"
  | ["cids.read"] => pure ("ok " ++ toHex [])
  | ["cids.write", chunks] => do
    let ps ← (chunks.splitOn ",").mapM fromHex
    pure ("ok " ++ toHex ((Writer.run {} ps).cid (fun b => b)))
  | ["cids.write"] => pure ("ok " ++ toHex [])
  | _ => none

end Ucan.Driver
