import Ucan.Driver.Selector
import Ucan.Model.Policy
import Ucan.Spec.Policy
import Ucan.Spec.PolicyIpld
/-!
Statement text on the line protocol (no spaces):
`ceq(<selhex>,<node>)` (also cgt, cge, clt, cle), `k(<selhex>,<patternhex>)` like, `!(<stmt>)`,
`&(<stmt>;…)`, `|(<stmt>;…)`, `A(<selhex>,<stmt>)` all, `E(<selhex>,<stmt>)` any; a policy is `P(<stmt>;…)`.
-/
namespace Ucan.Driver
open Ucan.Policy Ucan.Selector

def takeHexOrDash (cs : List Char) : Bytes × List Char :=
  match cs with
  | '-' :: r => ([], r)
  | _ => takeHex cs

mutual
partial def parseStmt (isL : Nat → Bool) : List Char → Option (Stmt × List Char)
  | 'c' :: a :: b :: '(' :: r => do
    let op ← match a, b with
      | 'e', 'q' => some Op.eq | 'g', 't' => some Op.gt | 'g', 'e' => some Op.gte
      | 'l', 't' => some Op.lt | 'l', 'e' => some Op.lte | _, _ => none
    let (sel, r) := takeHexOrDash r
    let sel ← (parse isL sel).toOption
    match r with
    | ',' :: r =>
      let (v, r) ← parseNode r
      match r with
      | ')' :: r => pure (.cmp op sel v, r)
      | _ => none
    | _ => none
  | 'k' :: '(' :: r => do
    let (sel, r) := takeHexOrDash r
    let sel ← (parse isL sel).toOption
    match r with
    | ',' :: r =>
      let (pat, r) := takeHexOrDash r
      let ts ← Glob.toks pat
      match r with
      | ')' :: r => pure (.like sel ts, r)
      | _ => none
    | _ => none
  | '!' :: '(' :: r => do
    let (s, r) ← parseStmt isL r
    match r with
    | ')' :: r => pure (.not s, r)
    | _ => none
  | '&' :: '(' :: r => do let (ss, r) ← parseStmts isL r; pure (.and ss, r)
  | '|' :: '(' :: r => do let (ss, r) ← parseStmts isL r; pure (.or ss, r)
  | 'A' :: '(' :: r => do
    let (sel, r) := takeHexOrDash r
    let sel ← (parse isL sel).toOption
    match r with
    | ',' :: r =>
      let (s, r) ← parseStmt isL r
      match r with
      | ')' :: r => pure (.all sel s, r)
      | _ => none
    | _ => none
  | 'E' :: '(' :: r => do
    let (sel, r) := takeHexOrDash r
    let sel ← (parse isL sel).toOption
    match r with
    | ',' :: r =>
      let (s, r) ← parseStmt isL r
      match r with
      | ')' :: r => pure (.any sel s, r)
      | _ => none
    | _ => none
  | _ => none
/-- statements separated by ';' up to the closing parenthesis (which is consumed) -/
partial def parseStmts (isL : Nat → Bool) : List Char → Option (List Stmt × List Char)
  | ')' :: r => some ([], r)
  | cs => do
    let (s, r) ← parseStmt isL cs
    match r with
    | ';' :: r => let (ss, r) ← parseStmts isL r; pure (s :: ss, r)
    | ')' :: r => pure ([s], r)
    | _ => none
end

def parsePolicy (isL : Nat → Bool) (s : String) : Option (List Stmt) :=
  match s.toList with
  | 'P' :: '(' :: r =>
    match parseStmts isL r with
    | some (ss, []) => some ss
    | _ => none
  | _ => none

partial def runPolicy : List String → Option String
  | ["pol.match", pol, letters, node] => do
    let isL ← parseLetters letters
    let n ← nodeFromStr node
    match parsePolicy isL pol with
    | none => pure "cerr"
    | some p => pure s!"{boolStr (Match p n)} {boolStr (PartialMatch p n)}"
  | ["pol.ipldjson", node, letters] => runPolicy ["pol.ipld", node, letters]
  | ["pol.ipld", node, letters] => do
    -- FromIPLD then ToIPLD: "err", or the written-back node and the specification's normalised node
    let isL ← parseLetters letters
    let n ← nodeFromStr node
    match fromIPLD isL n with
    | .error _ => pure "err"
    | .ok p => pure s!"ok {nodeToStr (toIPLD p)} | ok {nodeToStr (normPolicy isL n)}"
  | _ => none

end Ucan.Driver
