import Ucan.Model.Node
import Ucan.Model.GoM
/-!
The part of go-ipld-prime's `datamodel.Node` interface that go-ucan's own code uses on untyped nodes, as functions on the
model's `Node` (basicnode semantics): `Kind`, `Length`, `LookupByIndex`, `AsBytes`, `AsString`, `AsInt`, `AsFloat` (with `cmp.Compare`, `math.IsInf` on the float bits), and map iteration
(`MapIterator` / `Done` / `Next`), which the translator turns into a loop over `mapEntries` — `Next` never fails on a
well-formed node. A regenerated function that works on nodes (`envelope.Inspect`, `FindTag`) is a function on this model.
-/
namespace Ucan.GoM
open Ucan

/-- `n.Length()`: −1 for kinds that have no length -/
def nodeLength : Node → Int
  | .list xs => xs.length
  | .map kvs => kvs.length
  | _ => -1

/-- `n.LookupByIndex(i)`: only lists; out of range is an error (not a panic) -/
def lookupByIndex (n : Node) (i : Int) : GoM Node :=
  match n with
  | .list xs => if h : 0 ≤ i ∧ i.toNat < xs.length then pure (xs[i.toNat]'h.2) else throw (.err "index out of range")
  | _ => throw (.err "wrong kind: LookupByIndex")

/-- `n.AsBytes()` -/
def asBytes : Node → GoM Bytes
  | .bytes b => pure b
  | _ => throw (.err "wrong kind: AsBytes")

/-- `n.AsString()` -/
def asString : Node → GoM Bytes
  | .str s => pure s
  | _ => throw (.err "wrong kind: AsString")

/-- `n.AsInt()`: only integers, and only those an int64 holds (basicnode's `plainUint` above MaxInt64 answers with an error) -/
def asInt : Node → GoM Int
  | .int i => if intFits64 i then pure i else throw (.err "unsigned integer beyond int64")
  | _ => throw (.err "wrong kind: AsInt")

/-- `n.AsFloat()`: the IEEE-754 bits -/
def asFloat : Node → GoM UInt64
  | .float b => pure b
  | _ => throw (.err "wrong kind: AsFloat")

/-- `cmp.Compare` on integers -/
def cmpInt (a b : Int) : Int := if a < b then -1 else if a > b then 1 else 0

/-- `cmp.Compare` on float64: NaN is below every other value and equal to itself; otherwise the numeric order -/
def floatCompare (a b : UInt64) : Int :=
  if Float64.isNaN a then (if Float64.isNaN b then 0 else -1)
  else if Float64.isNaN b then 1
  else Float64.compare a b

/-- `math.IsInf(f, sign)`: sign > 0 asks for +Inf, sign < 0 for −Inf, 0 for either -/
def floatIsInf (b : UInt64) (sign : Int) : Bool :=
  Float64.isInf b && (if sign > 0 then !Float64.sign b else if sign < 0 then Float64.sign b else true)

/-- the values a `ListIterator` yields; nothing for other kinds -/
def listEntries : Node → List Node
  | .list xs => xs
  | _ => []

/-- the (key, value) pairs a `MapIterator` yields, keys as string nodes; nothing for other kinds -/
def mapEntries : Node → List (Node × Node)
  | .map kvs => kvs.map (fun kv => (Node.str kv.1, kv.2))
  | _ => []

mutual
/-- nesting depth of a node: 0 for scalars (the fuel a recursive walk over the node needs, less one) -/
def nodeDepth : Node → Nat
  | .list xs => nodeDepthList xs + 1
  | .map kvs => nodeDepthMap kvs + 1
  | _ => 0
def nodeDepthList : List Node → Nat
  | [] => 0
  | x :: xs => max (nodeDepth x) (nodeDepthList xs)
def nodeDepthMap : List (Bytes × Node) → Nat
  | [] => 0
  | (_, x) :: xs => max (nodeDepth x) (nodeDepthMap xs)
end

end Ucan.GoM
