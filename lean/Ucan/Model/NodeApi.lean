import Ucan.Model.Node
import Ucan.Model.GoM
/-!
The part of go-ipld-prime's `datamodel.Node` interface that go-ucan's own code uses on untyped nodes, as functions on the
model's `Node` (basicnode semantics): `Kind`, `Length`, `LookupByIndex`, `AsBytes`, `AsString`, and map iteration
(`MapIterator` / `Done` / `Next`), which the translator turns into a loop over `mapEntries` — `Next` never fails on a
well-formed node. A regenerated function that works on nodes (`envelope.Inspect`, `FindTag`) is a function on this model.
-/
namespace Ucan.GoM
open Ucan

/-- `n.Length()`: −1 for kinds that have no length -/
def nodeLength : Node → Int
  | .list xs => xs.length
  | .map kvs => kvs.length
  | _ => -1

/-- `n.LookupByIndex(i)`: only lists; out of range is an error (not a panic) -/
def lookupByIndex (n : Node) (i : Int) : GoM Node :=
  match n with
  | .list xs => if h : 0 ≤ i ∧ i.toNat < xs.length then pure (xs[i.toNat]'h.2) else throw (.err "index out of range")
  | _ => throw (.err "wrong kind: LookupByIndex")

/-- `n.AsBytes()` -/
def asBytes : Node → GoM Bytes
  | .bytes b => pure b
  | _ => throw (.err "wrong kind: AsBytes")

/-- `n.AsString()` -/
def asString : Node → GoM Bytes
  | .str s => pure s
  | _ => throw (.err "wrong kind: AsString")

/-- the (key, value) pairs a `MapIterator` yields, keys as string nodes; nothing for other kinds -/
def mapEntries : Node → List (Node × Node)
  | .map kvs => kvs.map (fun kv => (Node.str kv.1, kv.2))
  | _ => []

end Ucan.GoM
