import Ucan.Basic
/-!
Model of `pkg/policy/glob.go` (parseGlob, glob.Match).

`toks` renders the escape rules both functions share (`*` wildcard, `\\x` literal `x`, a lone trailing
backslash is an error); `globMatch` renders the matching loop `for j < len(str)` with its single
backtrack point (`starIdx`, `matchIdx`):

* `litRun ps s`   — the stretch of iterations that compare literals (branch "characters match") until the
                    string is exhausted (`.done`, then the trailing-star loop `allStar`), a wildcard is met
                    (`.star`: `starIdx = i; matchIdx = j; i++`) or a literal mismatches (`.fail`);
* `scan bp bs`    — "a star has been seen": `bp` is the pattern after `starIdx`, `bs` is `str[matchIdx:]`;
                    on a mismatch the loop backtracks `i = starIdx+1; matchIdx++; j = matchIdx`.

The index-level loop and this rendering take the same decisions step for step; the tie to the Go code is
the differential stream `glob` (all pattern/string pairs over {a,b,*,\\} up to a fixed length).
-/
namespace Ucan.Glob

def star : Byte := 42       -- '*'
def backslash : Byte := 92  -- '\\'

inductive Tok where
  | lit (b : Byte)
  | star
  deriving DecidableEq, Repr

/-- tokens of a pattern; `none` iff `parseGlob` reports "invalid escape sequence" -/
def toks : Bytes → Option (List Tok)
  | [] => some []
  | c :: r =>
    if c = star then (toks r).map (Tok.star :: ·)
    else if c = backslash then
      match r with
      | [] => none
      | d :: r' => (toks r').map (Tok.lit d :: ·)
    else (toks r).map (Tok.lit c :: ·)

/-- `parseGlob` accepts the pattern -/
def parseGlob (p : Bytes) : Bool := (toks p).isSome

def allStar : List Tok → Bool
  | [] => true
  | .star :: ps => allStar ps
  | .lit _ :: _ => false

inductive Outcome where
  | fail
  | done (b : Bool)
  | star (ps : List Tok) (s : Bytes)

/-- run of literal comparisons: the Go loop between two wildcard events -/
def litRun : List Tok → Bytes → Outcome
  | ps, [] => .done (allStar ps)
  | [], _ :: _ => .fail
  | .star :: ps, c :: s => .star ps (c :: s)
  | .lit a :: ps, c :: s => if a == c then litRun ps s else .fail

theorem litRun_star_len {bp bs ps' s'} (h : litRun bp bs = .star ps' s') :
    s'.length ≤ bs.length ∧ ps'.length < bp.length := by
  induction bp generalizing bs with
  | nil => cases bs <;> simp [litRun] at h
  | cons t bp ih =>
    cases bs with
    | nil => simp [litRun] at h
    | cons c s =>
      cases t with
      | star => simp [litRun] at h; obtain ⟨rfl, rfl⟩ := h; simp
      | lit a =>
        simp only [litRun] at h
        split at h
        · have := ih h; simp; omega
        · cases h

/-- state "a star has been seen; `bp` follows it; the star currently absorbs up to the start of `bs`" -/
def scan (bp : List Tok) (bs : Bytes) : Bool :=
  match h : litRun bp bs with
  | .done b => b
  | .star ps' s' => scan ps' s'
  | .fail => match bs with
    | [] => false
    | _ :: bs' => scan bp bs'
termination_by (bs.length, bp.length)
decreasing_by
  · have := litRun_star_len h
    rcases Nat.lt_or_eq_of_le this.1 with h1 | h1
    · exact Prod.Lex.left _ _ h1
    · rw [h1]; exact Prod.Lex.right _ this.2
  · exact Prod.Lex.left _ _ (by simp)

/-- the matcher: no wildcard seen yet -/
def globMatch (ps : List Tok) (s : Bytes) : Bool :=
  match litRun ps s with
  | .done b => b
  | .star ps' s' => scan ps' s'
  | .fail => false

/-- `like` on a string: parse, then match (an unparsable pattern never reaches the matcher) -/
def like (p s : Bytes) : Option Bool := (toks p).map (globMatch · s)

end Ucan.Glob
