import Ucan.Model.Cbor
import Ucan.Model.Base64
/-!
Model of `pkg/container`: the CAR v1 framing (`car.go`: `ldWrite`, `ldRead`, `readBlock`, `writeCar`,
`readCar`, header), the CBOR container (`{"ctn-v1": [bytes…]}`), the four readers and writers.

Byte sources: a reader is modelled by the bytes it delivers and how it ends (`Ending.eof` or
`Ending.fault`, an I/O error after the last delivered byte). How the bytes are chunked into `Read` calls
is not represented: `bufio.Reader` / `io.ReadFull` make the decoders independent of it (measured by the
stream `container`, not proved).

Parameters: `unsealFn` (token.FromSealed: the token and the CID of the sealed bytes, `none` = refused),
`hashOk` (the block's stored CID hashes to its data), base64 (`b64enc`/`b64dec`).
-/
namespace Ucan.Container

inductive Err where
  | unexpectedEOF | io | zeroSection | tooLarge | badVarint | badHeader | badCid | integrity | unsealErr
  | notContainer | base64
  deriving DecidableEq, Repr

inductive Ending where
  | eof | fault
  deriving DecidableEq, Repr

/-- `maxAllowedSectionSize` -/
def maxSection : Nat := 32 * 1024 * 1024

/-- `binary.PutUvarint` -/
def putUvarint (n : Nat) : Bytes :=
  if n < 128 then [UInt8.ofNat n] else UInt8.ofNat (n % 128 + 128) :: putUvarint (n / 128)
decreasing_by omega

/-- `binary.ReadUvarint` on the buffered reader: value and rest; `none` = the input ends inside the varint
    or it overflows 64 bits (10 bytes at most) -/
def readUvarint : Nat → Bytes → Option (Nat × Bytes)
  | 0, _ => none
  | _, [] => none
  | fuel + 1, b :: r =>
    if b.toNat < 128 then some (b.toNat, r)
    else match readUvarint fuel r with
      | none => none
      | some (v, r') => some (b.toNat - 128 + 128 * v, r')

/-- `ldWrite(w, d…)`: the length of the section as a varint, then the section -/
def ldWrite (d : Bytes) : Bytes := putUvarint d.length ++ d

inductive LdResult where
  | cleanEnd                      -- `Peek(1)` hit the end of the input: no more sections
  | section (d rest : Bytes)
  | error (e : Err)

/-- `ldRead(r)` on the remaining bytes of a source that ends with `ending` -/
def ldRead (ending : Ending) (b : Bytes) : LdResult :=
  match b with
  | [] => (match ending with | .eof => .cleanEnd | .fault => .error .io)
  | _ =>
    match readUvarint 10 b with
    | none => .error (match ending with | .eof => .unexpectedEOF | .fault => .io)
    | some (l, r) =>
      if l = 0 then .error .zeroSection
      else if l > maxSection then .error .tooLarge
      else if r.length < l then .error (match ending with | .eof => .unexpectedEOF | .fault => .io)
      else .section (r.take l) (r.drop l)

/-- a CAR block: the CID bytes it is stored under, and its data -/
structure Block where
  cid : Bytes
  data : Bytes
  deriving DecidableEq, Repr

/-- `cid.CidFromReader` on a section: split into CID bytes and data (CIDv1: version, codec, multihash code,
    digest length, digest; CIDv0: a bare 34-byte sha2-256 multihash) -/
def splitCid (raw : Bytes) : Option (Bytes × Bytes) :=
  match raw with
  | 0x12 :: 0x20 :: r => if r.length < 32 then none else some (raw.take 34, raw.drop 34)
  | _ =>
    match readUvarint 10 raw with
    | some (1, r1) =>
      match readUvarint 10 r1 with
      | some (_, r2) =>
        match readUvarint 10 r2 with
        | some (_, r3) =>
          match readUvarint 10 r3 with
          | some (len, digest) =>
            if digest.length < len then none
            else
              let n := raw.length - digest.length + len
              some (raw.take n, raw.drop n)
          | none => none
        | none => none
      | none => none
    | _ => none

/-- `readBlock`: frame, CID prefix, integrity of the data under the stored CID -/
def readBlock (hashOk : Bytes → Bytes → Bool) (raw : Bytes) : Except Err Block :=
  match splitCid raw with
  | none => .error .badCid
  | some (c, d) => if hashOk c d then .ok { cid := c, data := d } else .error .integrity

/-- the loop of `readCar` after the header: sections until the clean end of the input -/
def readBlocks (hashOk : Bytes → Bytes → Bool) (ending : Ending) : Nat → Bytes → Except Err (List Block)
  | 0, _ => .error .io   -- out of fuel: unreachable with fuel = length + 1
  | fuel + 1, b =>
    match ldRead ending b with
    | .cleanEnd => .ok []
    | .error e => .error e
    | .section raw rest =>
      match readBlock hashOk raw with
      | .error e => .error e
      | .ok blk =>
        match readBlocks hashOk ending fuel rest with
        | .error e => .error e
        | .ok bs => .ok (blk :: bs)

/-- `readCar`: header section (checked by `headerOk`), then the blocks -/
def readCar (headerOk : Bytes → Bool) (hashOk : Bytes → Bytes → Bool) (ending : Ending) (b : Bytes) :
    Except Err (List Block) :=
  match ldRead ending b with
  | .cleanEnd => .error (match ending with | .eof => .unexpectedEOF | .fault => .io)
  | .error e => .error e
  | .section h rest => if headerOk h then readBlocks hashOk ending (rest.length + 1) rest else .error .badHeader

/-- `writeCar`: header section, then one section per block (CID bytes followed by the data) -/
def writeCar (header : Bytes) (blocks : List Block) : Bytes :=
  ldWrite header ++ (blocks.map (fun b => ldWrite (b.cid ++ b.data))).flatten

/-- what a container reader returns: the tokens, each under the CID computed from its sealed bytes -/
abbrev Entries (T : Type) := List (Bytes × T)

/-- `addToken` over all entries: the first entry that does not unsealFn fails the whole read -/
def addTokens {T : Type} (unsealFn : Bytes → Option (Bytes × T)) : List Bytes → Except Err (Entries T)
  | [] => .ok []
  | d :: ds =>
    match unsealFn d with
    | none => .error .unsealErr
    | some e =>
      match addTokens unsealFn ds with
      | .error err => .error err
      | .ok es => .ok (e :: es)

/-- `FromCarReader` -/
def fromCar {T : Type} (headerOk : Bytes → Bool) (hashOk : Bytes → Bytes → Bool) (unsealFn : Bytes → Option (Bytes × T))
    (ending : Ending) (b : Bytes) : Except Err (Entries T) :=
  match readCar headerOk hashOk ending b with
  | .error e => .error e
  | .ok blocks => addTokens unsealFn (blocks.map (·.data))

/-- "ctn-v1" -/
def versionKey : Bytes := [99, 116, 110, 45, 118, 49]

/-- `ToCborWriter`: `{"ctn-v1": [sealed bytes…]}` in DAG-CBOR -/
def toCbor (sealed : List Bytes) : Bytes := Cbor.encode (.map [(versionKey, .list (sealed.map .bytes))])

def bytesOf : Node → Option Bytes
  | .bytes b => some b
  | _ => none

/-- `FromCborReader` on a complete input (a source that faults, or ends early, fails in the decoder) -/
def fromCbor {T : Type} (unsealFn : Bytes → Option (Bytes × T)) (ending : Ending) (b : Bytes) : Except Err (Entries T) :=
  match ending with
  | .fault => .error .io
  | .eof =>
    match Cbor.decode b with
    | some (.map [(k, .list items)]) =>
      if k ≠ versionKey then .error .notContainer
      else match items.mapM bytesOf with
        | none => .error .notContainer
        | some ds => addTokens unsealFn ds
    | _ => .error .notContainer

/-! ### the two base64 variants: the same container behind `base64.StdEncoding` -/

/-- `ToCarBase64` / `ToCarBase64Writer` -/
def toCarBase64 (header : Bytes) (blocks : List Block) : Bytes := Base64.encode (writeCar header blocks)

/-- `FromCarBase64` / `FromCarBase64Reader`: decode, then read the CAR; text that is not base64 is an error -/
def fromCarBase64 {T : Type} (headerOk : Bytes → Bool) (hashOk : Bytes → Bytes → Bool) (unsealFn : Bytes → Option (Bytes × T))
    (ending : Ending) (b : Bytes) : Except Err (Entries T) :=
  match Base64.decode b with
  | none => .error .base64
  | some raw => fromCar headerOk hashOk unsealFn ending raw

/-- `ToCborBase64` / `ToCborBase64Writer` -/
def toCborBase64 (sealed : List Bytes) : Bytes := Base64.encode (toCbor sealed)

/-- `FromCborBase64` / `FromCborBase64Reader` -/
def fromCborBase64 {T : Type} (unsealFn : Bytes → Option (Bytes × T)) (ending : Ending) (b : Bytes) : Except Err (Entries T) :=
  match Base64.decode b with
  | none => .error .base64
  | some raw => fromCbor unsealFn ending raw

end Ucan.Container
