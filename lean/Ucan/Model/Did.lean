import Ucan.Basic
import Ucan.Gen.Facts
/-!
Model of `did/did.go` (`Parse`, `String`, `PubKey`) and `did/crypto.go` (`FromPubKey`).

Base58btc (go-multibase / mr-tron), the per-codec key (un)marshallers (libp2p, x509) are PARAMETERS:
`b58enc`/`b58dec` and `marshal`/`unmarshal`; the theorems state which contracts they need. The varint
of the multicodec code is modelled concretely (go-varint: minimal encoding, at most 9 bytes). The
tables are the regenerated `Facts.parseWhitelist`, `Facts.pubKeyTable`, `Facts.fromPubKeyCodes`.
-/
namespace Ucan.Did

/-- `varint.ToUvarint` -/
def toUvarint (n : Nat) : Bytes :=
  if n < 128 then [UInt8.ofNat n] else UInt8.ofNat (n % 128 + 128) :: toUvarint (n / 128)
decreasing_by omega

/-- `varint.FromUvarint` (minimal encoding enforced, at most `fuel` bytes): value and number of bytes read -/
def fromUvarint : Nat → Bytes → Option (Nat × Nat)
  | 0, _ => none
  | _, [] => none
  | fuel + 1, b :: r =>
    if b.toNat < 128 then some (b.toNat, 1)
    else match fromUvarint fuel r with
      | none => none
      | some (v, k) => if v = 0 then none else some (b.toNat - 128 + 128 * v, k + 1)

/-- a DID value: the multicodec code and the bytes (varint of the code followed by the key material) -/
structure DID where
  code : Nat
  bytes : Bytes
  deriving DecidableEq, Repr

inductive Err where
  | noPrefix | multibase | notBase58 | varint | unsupportedCodec | unmarshal | notCanonical
  deriving DecidableEq, Repr

/-- "did:key:" -/
def keyPrefix : Bytes := [100, 105, 100, 58, 107, 101, 121, 58]
/-- multibase prefix of base58btc -/
def zChar : Byte := 122

/-- `did.Parse`; `mbDecode` is `multibase.Decode` on the text after the prefix: the base it found
    (as its prefix character) and the decoded bytes -/
def parse (mbDecode : Bytes → Option (Byte × Bytes)) (s : Bytes) : Except Err DID :=
  if ¬ keyPrefix.isPrefixOf s then .error .noPrefix
  else match mbDecode (s.drop keyPrefix.length) with
    | none => .error .multibase
    | some (base, bytes) =>
      if base ≠ zChar then .error .notBase58
      else match fromUvarint 9 bytes with
        | none => .error .varint
        | some (code, _) =>
          if Facts.parseWhitelist.contains code then .ok { code := code, bytes := bytes }
          else .error .unsupportedCodec

/-- `DID.String` -/
def print (b58enc : Bytes → Bytes) (d : DID) : Bytes := keyPrefix ++ zChar :: b58enc d.bytes

/-- `did.FromPubKey`: `k` is a key of algorithm `code`, `marshal` its per-codec encoding
    (compressed point, raw Ed25519 key, PKCS#1 DER) -/
def fromPubKey {K : Type} (marshal : Nat → K → Bytes) (code : Nat) (k : K) : DID :=
  { code := code, bytes := toUvarint code ++ marshal code k }

/-- `DID.PubKey`: table lookup, strip the varint of the code, unmarshal; then (canonical check) the DID
    rebuilt from the extracted key must be this DID -/
def pubKey {K : Type} (marshal : Nat → K → Bytes) (unmarshal : Nat → Bytes → Option K) (d : DID) : Except Err K :=
  if ¬ Facts.pubKeyTable.contains d.code then .error .unsupportedCodec
  else match unmarshal d.code (d.bytes.drop (toUvarint d.code).length) with
    | none => .error .unmarshal
    | some k => if fromPubKey marshal d.code k = d then .ok k else .error .notCanonical

end Ucan.Did
