import Ucan.Basic
/-!
Base-58 (Bitcoin alphabet) as the did:key text form uses it (`z` multibase prefix; the Go code calls
go-multibase → mr-tron/base58, a dependency). A byte string is a big-endian number, leading zero bytes are kept
as leading `1`s. Total, computable, core Lean only; the round trip is `Props/C16`.
-/
namespace Ucan.Base58

/-- little-endian digits of `n` in base `b`, at most `fuel` of them -/
def digitsLE (b : Nat) : Nat → Nat → List Nat
  | 0, _ => []
  | fuel + 1, n => if n = 0 then [] else (n % b) :: digitsLE b fuel (n / b)

/-- value of little-endian digits -/
def ofDigitsLE (b : Nat) : List Nat → Nat
  | [] => 0
  | d :: ds => d + b * ofDigitsLE b ds

/-- big-endian digits, no leading zero, `[]` for 0 -/
def digitsBE (b n : Nat) : List Nat := (digitsLE b n n).reverse

def ofDigitsBE (b : Nat) (ds : List Nat) : Nat := ofDigitsLE b ds.reverse

def alphabet : List UInt8 :=
  [49, 50, 51, 52, 53, 54, 55, 56, 57, 65, 66, 67, 68, 69, 70, 71, 72, 74, 75, 76, 77, 78, 80, 81, 82, 83, 84, 85, 86, 87,
   88, 89, 90, 97, 98, 99, 100, 101, 102, 103, 104, 105, 106, 107, 109, 110, 111, 112, 113, 114, 115, 116, 117, 118, 119,
   120, 121, 122]

def one : UInt8 := 49  -- '1', the digit 0

def charOf (d : Nat) : UInt8 := alphabet.getD d one

def indexOf (c : UInt8) : Option Nat :=
  let i := alphabet.idxOf c
  if i < 58 then some i else none

def leadingZeros (b : Bytes) : Nat := (b.takeWhile (· == 0)).length

def encode (b : Bytes) : Bytes :=
  List.replicate (leadingZeros b) one ++ (digitsBE 58 (ofDigitsBE 256 (b.map UInt8.toNat))).map charOf

def decode (s : Bytes) : Option Bytes :=
  match s.mapM indexOf with
  | none => none
  | some ds =>
    let zeros := (s.takeWhile (· == one)).length
    some (List.replicate zeros 0 ++ (digitsBE 256 (ofDigitsBE 58 ds)).map UInt8.ofNat)

end Ucan.Base58
