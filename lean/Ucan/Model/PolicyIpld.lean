import Ucan.Model.Policy
import Ucan.Model.SelectorParse
import Ucan.Gen.Facts
/-!
Model of `pkg/policy/ipld.go` (`FromIPLD`, `statementFromIPLD`, `statementsFromIPLD`, `ToIPLD`,
`statementToIPLD`) and of `limits.ValidateIntegerBoundsIPLD`.

`PStmt` is the Go `Statement` as stored: selectors keep their source text segment by segment
(`Seg.str`), `like` keeps its pattern text. `PStmt.sem` is the statement the matcher evaluates.
The operator strings come from the regenerated `Facts.kind*` constants.
-/
namespace Ucan.Policy
open Ucan.Selector

inductive PStmt where
  | cmp (op : Op) (sel : List Seg) (v : Node)
  | like (sel : List Seg) (pat : Bytes)
  | not (s : PStmt)
  | and (ss : List PStmt)
  | or (ss : List PStmt)
  | all (sel : List Seg) (s : PStmt)
  | any (sel : List Seg) (s : PStmt)

inductive IErr where
  | intBounds | notATuple | unrecognizedShape | notAString | invalidSelector | invalidPattern | unrecognizedOperator
  deriving DecidableEq, Repr

def opOfKind (k : Bytes) : Option Op :=
  if k = Facts.kindEqual then some .eq
  else if k = Facts.kindGreaterThan then some .gt
  else if k = Facts.kindGreaterThanOrEqual then some .gte
  else if k = Facts.kindLessThan then some .lt
  else if k = Facts.kindLessThanOrEqual then some .lte
  else none

def kindOfOp : Op → Bytes
  | .eq => Facts.kindEqual
  | .gt => Facts.kindGreaterThan
  | .gte => Facts.kindGreaterThanOrEqual
  | .lt => Facts.kindLessThan
  | .lte => Facts.kindLessThanOrEqual

mutual
/-- `limits.ValidateIntegerBoundsIPLD` (integers that do not fit int64 make `must.Int` panic: see C09;
    here they are simply out of bounds) -/
def intsInBounds : Node → Bool
  | .int i => Facts.minInt53 ≤ i && i ≤ Facts.maxInt53
  | .list xs => intsInBoundsList xs
  | .map kvs => intsInBoundsMap kvs
  | _ => true
def intsInBoundsList : List Node → Bool
  | [] => true
  | x :: xs => intsInBounds x && intsInBoundsList xs
def intsInBoundsMap : List (Bytes × Node) → Bool
  | [] => true
  | (_, x) :: xs => intsInBounds x && intsInBoundsMap xs
end

def arg2AsSelector (isLetter : Nat → Bool) (n : Node) : Except IErr (List Seg) :=
  match n with
  | .str s =>
    match parse isLetter s with
    | .ok sel => .ok sel
    | .error _ => .error .invalidSelector
  | _ => .error .notAString

mutual
/-- `statementFromIPLD` -/
def stmtFromIPLD (isLetter : Nat → Bool) : Node → Except IErr PStmt
  | .list [opN, a] =>
    match opN with
    | .str op =>
      if op = Facts.kindNot then
        match stmtFromIPLD isLetter a with
        | .ok s => .ok (.not s)
        | .error e => .error e
      else if op = Facts.kindAnd then
        match a with
        | .list xs => match stmtsFromIPLD isLetter xs with
          | .ok ss => .ok (.and ss)
          | .error e => .error e
        | _ => .error .notATuple
      else if op = Facts.kindOr then
        match a with
        | .list xs => match stmtsFromIPLD isLetter xs with
          | .ok ss => .ok (.or ss)
          | .error e => .error e
        | _ => .error .notATuple
      else .error .unrecognizedOperator
    | _ => .error .notAString
  | .list [opN, a, b] =>
    match opN with
    | .str op =>
      match opOfKind op with
      | some o =>
        match arg2AsSelector isLetter a with
        | .ok sel => .ok (.cmp o sel b)
        | .error e => .error e
      | none =>
        if op = Facts.kindLike then
          match arg2AsSelector isLetter a with
          | .error e => .error e
          | .ok sel =>
            match b with
            | .str pat => if Glob.parseGlob pat then .ok (.like sel pat) else .error .invalidPattern
            | _ => .error .notAString
        else if op = Facts.kindAll then
          match arg2AsSelector isLetter a with
          | .error e => .error e
          | .ok sel => match stmtFromIPLD isLetter b with
            | .ok s => .ok (.all sel s)
            | .error e => .error e
        else if op = Facts.kindAny then
          match arg2AsSelector isLetter a with
          | .error e => .error e
          | .ok sel => match stmtFromIPLD isLetter b with
            | .ok s => .ok (.any sel s)
            | .error e => .error e
        else .error .unrecognizedOperator
    | _ => .error .notAString
  | .list _ => .error .unrecognizedShape
  | _ => .error .notATuple
/-- the loop of `statementsFromIPLD` -/
def stmtsFromIPLD (isLetter : Nat → Bool) : List Node → Except IErr (List PStmt)
  | [] => .ok []
  | x :: xs =>
    match stmtFromIPLD isLetter x with
    | .error e => .error e
    | .ok s =>
      match stmtsFromIPLD isLetter xs with
      | .error e => .error e
      | .ok ss => .ok (s :: ss)
end

/-- `policy.FromIPLD` -/
def fromIPLD (isLetter : Nat → Bool) (n : Node) : Except IErr (List PStmt) :=
  if !intsInBounds n then .error .intBounds
  else match n with
    | .list xs => stmtsFromIPLD isLetter xs
    | _ => .error .notATuple

mutual
/-- `statementToIPLD` -/
def stmtToIPLD : PStmt → Node
  | .cmp op sel v => .list [.str (kindOfOp op), .str (print sel), v]
  | .like sel pat => .list [.str Facts.kindLike, .str (print sel), .str pat]
  | .not s => .list [.str Facts.kindNot, stmtToIPLD s]
  | .and ss => .list [.str Facts.kindAnd, .list (stmtsToIPLD ss)]
  | .or ss => .list [.str Facts.kindOr, .list (stmtsToIPLD ss)]
  | .all sel s => .list [.str Facts.kindAll, .str (print sel), stmtToIPLD s]
  | .any sel s => .list [.str Facts.kindAny, .str (print sel), stmtToIPLD s]
def stmtsToIPLD : List PStmt → List Node
  | [] => []
  | s :: ss => stmtToIPLD s :: stmtsToIPLD ss
end

/-- `Policy.ToIPLD` -/
def toIPLD (p : List PStmt) : Node := .list (stmtsToIPLD p)

mutual
/-- the statement the matcher evaluates (`none` when a stored pattern does not tokenise: impossible for
    statements obtained from `fromIPLD` or the constructors, which run `parseGlob`) -/
def PStmt.sem : PStmt → Option Stmt
  | .cmp op sel v => some (.cmp op sel v)
  | .like sel pat => (Glob.toks pat).map (Stmt.like sel)
  | .not s => (PStmt.sem s).map Stmt.not
  | .and ss => (PStmt.semList ss).map Stmt.and
  | .or ss => (PStmt.semList ss).map Stmt.or
  | .all sel s => (PStmt.sem s).map (Stmt.all sel)
  | .any sel s => (PStmt.sem s).map (Stmt.any sel)
def PStmt.semList : List PStmt → Option (List Stmt)
  | [] => some []
  | s :: ss => match PStmt.sem s, PStmt.semList ss with
    | some a, some b => some (a :: b)
    | _, _ => none
end

end Ucan.Policy
