import Ucan.Basic
/-!
`base64.StdEncoding` (RFC 4648 with padding) as the `*Base64` container variants use it (Go: encoding/base64, a
dependency). Total, computable, core Lean only; the round trip is `Lemmas/Base64.lean`.
-/
namespace Ucan.Base64

def pad : UInt8 := 61  -- '='

/-- the character of a 6-bit value -/
def enc6 (n : Nat) : UInt8 :=
  if n < 26 then UInt8.ofNat (n + 65)
  else if n < 52 then UInt8.ofNat (n + 71)
  else if n < 62 then UInt8.ofNat (n - 4)
  else if n = 62 then 43
  else 47

/-- the 6-bit value of a character -/
def val6 (c : UInt8) : Option Nat :=
  let n := c.toNat
  if 65 ≤ n ∧ n ≤ 90 then some (n - 65)
  else if 97 ≤ n ∧ n ≤ 122 then some (n - 71)
  else if 48 ≤ n ∧ n ≤ 57 then some (n + 4)
  else if n = 43 then some 62
  else if n = 47 then some 63
  else none

def encode : Bytes → Bytes
  | a :: b :: c :: rest =>
    enc6 (a.toNat / 4) :: enc6 ((a.toNat % 4) * 16 + b.toNat / 16) :: enc6 ((b.toNat % 16) * 4 + c.toNat / 64) ::
      enc6 (c.toNat % 64) :: encode rest
  | [a, b] => [enc6 (a.toNat / 4), enc6 ((a.toNat % 4) * 16 + b.toNat / 16), enc6 ((b.toNat % 16) * 4), pad]
  | [a] => [enc6 (a.toNat / 4), enc6 ((a.toNat % 4) * 16), pad, pad]
  | [] => []

/-- the three bytes of a group from its four 6-bit values -/
def mk1 (x y : Nat) : UInt8 := UInt8.ofNat (x * 4 + y / 16)
def mk2 (y z : Nat) : UInt8 := UInt8.ofNat ((y % 16) * 16 + z / 4)
def mk3 (z w : Nat) : UInt8 := UInt8.ofNat ((z % 4) * 64 + w)

/-- strict decoding: groups of four, padding only in the last group, unused bits zero -/
def decode : Bytes → Option Bytes
  | [] => some []
  | a :: b :: c :: d :: r =>
    if c = pad ∧ d = pad ∧ r = [] then
      match val6 a, val6 b with
      | some x, some y => if y % 16 ≠ 0 then none else some [mk1 x y]
      | _, _ => none
    else if d = pad ∧ r = [] then
      match val6 a, val6 b, val6 c with
      | some x, some y, some z =>
        if z % 4 ≠ 0 then none else some [mk1 x y, mk2 y z]
      | _, _, _ => none
    else
      match val6 a, val6 b, val6 c, val6 d, decode r with
      | some x, some y, some z, some w, some rest =>
        some (mk1 x y :: mk2 y z :: mk3 z w :: rest)
      | _, _, _, _, _ => none
  | _ => none

end Ucan.Base64
