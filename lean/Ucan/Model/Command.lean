import Ucan.Basic
/-!
Model of `pkg/command/command.go` (Parse, Segments, Covers, Join), byte level.

Go source rendered here:
* `Parse`    command.go:32-48   — three tests in order, value returned unchanged
* `Join`     command.go:79-98   — empty segments skipped, separator only when `len(buf) > 1`
* `Segments` command.go:102-107 — `nil` for "/", otherwise `strings.Split(c, "/")[1:]`
* `Covers`   command.go:110-115 — `HasPrefix` + boundary fast path, as written

`strings.ToLower` is a parameter (`lower`): the theorems hold for every `lower`; the driver
receives Go's own `strings.ToLower(s)` (standard library, not /repo code) with each case.
-/
namespace Ucan.Command

def slash : Byte := 47

inductive Err where
  | leadingSlash | trailingSlash | lowercase
  deriving DecidableEq, Repr

/-- `strings.Split(s, "/")` for a one-byte separator: never empty, `"" ↦ [""]`. -/
def split (sep : Byte) : Bytes → List Bytes
  | [] => [[]]
  | b :: bs =>
    if b = sep then [] :: split sep bs
    else match split sep bs with
      | [] => [[b]]
      | x :: xs => (b :: x) :: xs

/-- `Command.Parse` -/
def parse (lower : Bytes → Bytes) (s : Bytes) : Except Err Bytes :=
  if s.head? ≠ some slash then .error .leadingSlash
  else if s.length > 1 ∧ s.getLast? = some slash then .error .trailingSlash
  else if s ≠ lower s then .error .lowercase
  else .ok s

/-- `Command.Segments` -/
def segments (c : Bytes) : List Bytes :=
  if c = [slash] then [] else (split slash c).tail

/-- `Command.Covers`, the fast path as written -/
def covers (c o : Bytes) : Bool :=
  if ¬ c.isPrefixOf o then false
  else c == [slash] || c.length == o.length || o[c.length]? == some slash

/-- the loop of `Command.Join` over the segments, `buf` is the buffer so far -/
def joinLoop : Bytes → List Bytes → Bytes
  | buf, [] => buf
  | buf, s :: ss =>
    if s ≠ [] then
      joinLoop ((if buf.length > 1 then buf ++ [slash] else buf) ++ s) ss
    else joinLoop buf ss

/-- `Command.Join` -/
def join (c : Bytes) (segs : List Bytes) : Bytes :=
  if (segs.map List.length).sum = 0 then c else joinLoop c segs

end Ucan.Command
