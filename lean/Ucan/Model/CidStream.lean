import Ucan.Basic
/-!
Model of `token/internal/envelope/cid.go`: `CIDReader` and `CIDWriter`, the wrappers that compute a token's CID while its bytes
stream through. Both are state machines over (bytes hashed so far, latched error). SHA-256 and the CID framing are the
parameter `cidOf : Bytes → C` applied to the bytes hashed (the real code feeds them to the hash incrementally; a hash of a
concatenation is the hash of the parts fed in order — the contract of `hash.Hash`).

`CIDReader.Read(p)`: the inner reader delivers `data` (the `n` bytes it put into `p`) together with an outcome — nothing, the clean
end `io.EOF`, or a failure. A failure is latched and its data is NOT hashed (the CID is then an error for good); otherwise the data
is hashed — also the data that arrives together with `io.EOF`. The caller sees exactly what the inner reader delivered.
`CIDWriter.Write(p)`: `p` is hashed, then handed to the inner writer, whose outcome is the caller's.
-/
namespace Ucan.CidStream

/-- how one call of the inner reader / writer ended -/
inductive Outcome where
  | ok            -- err == nil
  | eof           -- err == io.EOF (a read may still have delivered data)
  | fail (e : Nat) -- any other error (identified by a number)
  deriving DecidableEq, Repr

structure Reader where
  hashed : Bytes := []
  err : Option Nat := none
  deriving DecidableEq, Repr

/-- one `Read`: the inner reader's delivery `(data, outcome)`; returns the new state (the caller gets the same delivery) -/
def Reader.read (r : Reader) (data : Bytes) (o : Outcome) : Reader :=
  match o with
  | .fail e => { r with err := some e }
  | _ => { r with hashed := r.hashed ++ data }

/-- `CID()`: the latched error, else the CID of everything hashed -/
def Reader.cid {C : Type} (cidOf : Bytes → C) (r : Reader) : Except Nat C :=
  match r.err with
  | some e => .error e
  | none => .ok (cidOf r.hashed)

/-- a history of deliveries -/
def Reader.run (r : Reader) : List (Bytes × Outcome) → Reader
  | [] => r
  | (d, o) :: rest => (r.read d o).run rest

/-- the bytes a caller has been handed by deliveries that did not fail -/
def delivered : List (Bytes × Outcome) → Bytes
  | [] => []
  | (d, .fail _) :: rest => delivered rest
  | (d, _) :: rest => d ++ delivered rest

def anyFail : List (Bytes × Outcome) → Option Nat
  | [] => none
  | (_, .fail e) :: _ => some e
  | _ :: rest => anyFail rest

structure Writer where
  hashed : Bytes := []
  deriving DecidableEq, Repr

/-- one `Write(p)`: `p` is hashed whatever the inner writer then does with it -/
def Writer.write (w : Writer) (p : Bytes) : Writer := { w with hashed := w.hashed ++ p }

def Writer.cid {C : Type} (cidOf : Bytes → C) (w : Writer) : C := cidOf w.hashed

def Writer.run (w : Writer) : List Bytes → Writer
  | [] => w
  | p :: rest => (w.write p).run rest

end Ucan.CidStream
