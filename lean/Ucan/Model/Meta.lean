import Ucan.Model.Node
/-!
Model of the encrypted-metadata wrapper: `pkg/meta/meta.go` (`AddEncrypted`, `GetEncryptedString`,
`GetEncryptedBytes`) and `pkg/meta/internal/crypto/secretbox.go` (`EncryptWithKey`,
`DecryptStringWithKey`, `validateKey`).

XSalsa20-Poly1305 (`secretbox.Seal` / `secretbox.Open`) and the random nonce are PARAMETERS: the theorems
say what the wrapper does with them, under which contract. Confidentiality and authenticity themselves are
cryptographic assumptions about secretbox and crypto/rand, named in C19 and never proved.
-/
namespace Ucan.Meta

inductive Err where
  | noKey | keySize | zeroKey | shortCiphertext | decryption | notEncryptable | notFound | notBytes | duplicate | entropy
  deriving DecidableEq, Repr

def keySize : Nat := 32
def nonceSize : Nat := 24

/-- `validateKey`: a key is required, of exactly 32 bytes, not all zero (`none` = a nil slice) -/
def validateKey (key : Option Bytes) : Except Err Bytes :=
  match key with
  | none => .error .noKey
  | some k =>
    if k.length ≠ keySize then .error .keySize
    else if k.all (· == 0) then .error .zeroKey
    else .ok k

/-- `EncryptWithKey`: fresh nonce, ciphertext stored as nonce ‖ box -/
def encrypt (sealFn : Bytes → Bytes → Bytes → Bytes) (key : Option Bytes) (nonce data : Bytes) : Except Err Bytes :=
  match validateKey key with
  | .error e => .error e
  | .ok k => .ok (nonce ++ sealFn k nonce data)

/-- `EncryptWithKey` including the draw of the nonce: `io.ReadFull(rand.Reader, nonce[:])` delivers
    `drawn` bytes and fails unless all 24 arrive (`src = none`: the reader failed outright) -/
def encryptDrawing (sealFn : Bytes → Bytes → Bytes → Bytes) (key : Option Bytes) (src : Option Bytes) (data : Bytes) :
    Except Err Bytes :=
  match validateKey key with
  | .error e => .error e
  | .ok _ =>
    match src with
    | none => .error .entropy
    | some drawn => if drawn.length < nonceSize then .error .entropy else encrypt sealFn key (drawn.take nonceSize) data

/-- `DecryptStringWithKey` -/
def decrypt (open_ : Bytes → Bytes → Bytes → Option Bytes) (key : Option Bytes) (data : Bytes) : Except Err Bytes :=
  match validateKey key with
  | .error e => .error e
  | .ok k =>
    if data.length < nonceSize then .error .shortCiphertext
    else match open_ k (data.take nonceSize) (data.drop nonceSize) with
      | some m => .ok m
      | none => .error .decryption

/-- the values `AddEncrypted` accepts: strings and byte slices only -/
inductive Plain where
  | str (s : Bytes)
  | bytes (b : Bytes)
  | other

def Plain.data : Plain → Option Bytes
  | .str s => some s
  | .bytes b => some b
  | .other => none

/-- `Meta.AddEncrypted`: the stored metadata value (a bytes node) -/
def addEncrypted (sealFn : Bytes → Bytes → Bytes → Bytes) (key : Option Bytes) (nonce : Bytes) (v : Plain) : Except Err Node :=
  match v.data with
  | none => .error .notEncryptable
  | some d =>
    match encrypt sealFn key nonce d with
    | .error e => .error e
    | .ok c => .ok (.bytes c)

/-- `Meta.GetEncryptedBytes` / `GetEncryptedString` on the stored value -/
def getEncrypted (open_ : Bytes → Bytes → Bytes → Option Bytes) (key : Option Bytes) (stored : Option Node) : Except Err Bytes :=
  match stored with
  | none => .error .notFound
  | some (.bytes c) => decrypt open_ key c
  | some _ => .error .notBytes

end Ucan.Meta
