import Ucan.Model.Selector
import Ucan.Gen.Facts
/-!
Model of `pkg/policy/selector/parsing.go` (`tokenize`, `Parse`) and of `Selector.String`.

Byte level. The three regular expressions are hand-written recognisers; `\p{L}` is the parameter
`isLetter` (a predicate on code points): theorems hold for every `isLetter`, the driver receives Go's own
`unicode.IsLetter` verdict for each non-ASCII rune of the input.
-/
namespace Ucan.Selector

inductive PErr where
  | empty | noLeadingDot | unterminatedQuote | recursiveDescent | invalidSegment | invalidIndex
  | indexBounds | invalidSliceIndex
  | panicSliceBounds   -- `lookup[1:len(lookup)-1]` with `lookup == "\""`: a Go run-time panic
  deriving DecidableEq, Repr

def cDot : Byte := 46
def cLBr : Byte := 91
def cRBr : Byte := 93
def cQuote : Byte := 34
def cBackslash : Byte := 92
def cQM : Byte := 63
def cColon : Byte := 58
def cMinus : Byte := 45

/-- the loop of `tokenize`. `prev` is `str[col-1]`, `inQ` is `ctx == "\""`, `cur` is `str[ofs:col]`
    (reversed), `acc` the tokens so far (reversed). Returns the tokens and whether a quote is left open. -/
def tokenizeLoop : Byte → Bool → Bytes → List Bytes → Bytes → List Bytes × Bool
  | _, inQ, cur, acc, [] =>
    ((if cur = [] then acc else cur.reverse :: acc).reverse, inQ)
  | prev, inQ, cur, acc, c :: rest =>
    if c = cQuote ∧ prev ≠ cBackslash then tokenizeLoop c (!inQ) (c :: cur) acc rest
    else if inQ then tokenizeLoop c inQ (c :: cur) acc rest
    else if c = cDot ∨ c = cLBr then
      tokenizeLoop c inQ [c] (if cur = [] then acc else cur.reverse :: acc) rest
    else tokenizeLoop c inQ (c :: cur) acc rest

def tokenize (s : Bytes) : List Bytes × Bool := tokenizeLoop 0 false [] [] s

/-- `strings.TrimRight(tok, "?")` -/
def trimQM (tok : Bytes) : Bytes := (tok.reverse.dropWhile (· = cQM)).reverse

def isDigit (c : Byte) : Bool := 48 ≤ c.toNat && c.toNat ≤ 57

/-- `-?\d+` : optional minus, at least one digit -/
def isSignedDigits1 : Bytes → Bool
  | [] => false
  | c :: r => if c = cMinus then (r ≠ [] && r.all isDigit) else (c :: r).all isDigit

/-- `-?\d*` -/
def isSignedDigits0 : Bytes → Bool
  | [] => true
  | c :: r => if c = cMinus then r.all isDigit else (c :: r).all isDigit

def digitsVal (ds : Bytes) : Nat := ds.foldl (fun acc d => acc * 10 + (d.toNat - 48)) 0

/-- `strconv.Atoi` / `ParseInt(s, 10, 0)` on input matching `-?\d*`: `none` = syntax or range error
    (range of int64; the caller then applies the ±(2^53−1) bound) -/
def parseInt (s : Bytes) : Option Int :=
  match s with
  | [] => none
  | c :: r =>
    let (neg, ds) := if c = cMinus then (true, r) else (false, c :: r)
    if ds = [] ∨ !(ds.all isDigit) then none
    else
      let v : Int := if neg then - (digitsVal ds : Int) else (digitsVal ds : Int)
      if v < minInt ∨ v > maxInt then none else some v

/-- `strings.Split(lookup, ":")` when there is exactly one colon -/
def splitColon (l : Bytes) : Option (Bytes × Bytes) :=
  let a := l.takeWhile (· ≠ cColon)
  match l.dropWhile (· ≠ cColon) with
  | [] => none
  | _ :: b => if b.contains cColon then none else some (a, b)

/-- `sliceRegex`: `^((\-?\d+:\-?\d*)|(\-?\d*:\-?\d+))$` -/
def isSlice (l : Bytes) : Bool :=
  match splitColon l with
  | none => false
  | some (a, b) => (isSignedDigits1 a && isSignedDigits0 b) || (isSignedDigits0 a && isSignedDigits1 b)

def isAsciiLetter (r : Nat) : Bool := (97 ≤ r && r ≤ 122) || (65 ≤ r && r ≤ 90)

/-- `fieldRegex`: `^\.[a-zA-Z_\p{L}][a-zA-Z0-9$_\p{L}\-]*$`, on code points -/
def isFieldSeg (isLetter : Nat → Bool) (seg : Bytes) : Bool :=
  match Utf8.decode seg with
  | d :: h :: t =>
    d = 46 && (isAsciiLetter h || h = 95 || isLetter h) &&
      t.all (fun r => isAsciiLetter r || (48 ≤ r && r ≤ 57) || r = 36 || r = 95 || r = 45 || isLetter r)
  | _ => false

def inBounds53 (v : Int) : Bool := Facts.minInt53 ≤ v && v ≤ Facts.maxInt53

/-- what the inner `switch` of `Parse` decides for a non-identity token -/
inductive SegBody where
  | iterator
  | index (i : Int)
  | field (name : Bytes)
  | slice (lo hi : Int)

/-- the segment literal each `case` appends: the token text is kept in `str` -/
def mkSeg (tok : Bytes) (opt : Bool) : SegBody → Seg
  | .iterator => { str := tok, optional := opt, iterator := true }
  | .index i => { str := tok, optional := opt, index := i }
  | .field f => { str := tok, optional := opt, isField := true, field := f }
  | .slice l h => { str := tok, optional := opt, slice := some (l, h) }

/-- one slice bound: empty = open (sentinel), otherwise `ParseInt` + the ±(2^53−1) test -/
def sliceBound (b : Bytes) (sentinel : Int) : Except PErr Int :=
  if b = [] then .ok sentinel
  else match parseInt b with
    | none => .error .invalidSliceIndex
    | some i => if inBounds53 i then .ok i else .error .invalidSliceIndex

/-- the cases of the `switch` after `seg == "."`, in source order; `seg` is the token without its
    trailing question marks -/
def classifyBody (isLetter : Nat → Bool) (seg : Bytes) : Except PErr SegBody :=
  if seg = [cLBr, cRBr] then .ok .iterator
  else if seg.head? = some cLBr ∧ seg.getLast? = some cRBr then
    let lookup := (seg.drop 1).dropLast
    if isSignedDigits1 lookup then
      match parseInt lookup with
      | none => .error .invalidIndex
      | some idx => if inBounds53 idx then .ok (.index idx) else .error .indexBounds
    else if lookup.head? = some cQuote ∧ lookup.getLast? = some cQuote then
      if lookup.length < 2 then .error .panicSliceBounds
      else
        let name := (lookup.drop 1).dropLast
        if name.contains cColon then .error .invalidSegment else .ok (.field name)
    else if isSlice lookup then
      match splitColon lookup with
      | none => .error .invalidSegment
      | some (a, b) =>
        match sliceBound a minInt with
        | .error e => .error e
        | .ok l =>
          match sliceBound b maxInt with
          | .error e => .error e
          | .ok h => .ok (.slice l h)
    else .error .invalidSegment
  else if isFieldSeg isLetter seg then .ok (.field (seg.drop 1))
  else .error .invalidSegment

/-- body of the `for _, tok := range tokenize(str)` loop for one token; `lastIdentity` says whether the
    previous segment is an identity segment -/
def parseToken (isLetter : Nat → Bool) (lastIdentity : Bool) (tok : Bytes) : Except PErr Seg :=
  let opt := tok.getLast? = some cQM
  let seg := if opt then trimQM tok else tok
  if seg = [cDot] then
    if lastIdentity then .error .recursiveDescent else .ok { str := [cDot], identity := true }
  else
    match classifyBody isLetter seg with
    | .error e => .error e
    | .ok body => .ok (mkSeg tok opt body)

def parseLoop (isLetter : Nat → Bool) : List Seg → List Bytes → Except PErr (List Seg)
  | sel, [] => .ok sel
  | sel, tok :: rest =>
    match parseToken isLetter (match sel.getLast? with | some s => s.identity | none => false) tok with
    | .error e => .error e
    | .ok seg => parseLoop isLetter (sel ++ [seg]) rest

/-- `selector.Parse` -/
def parse (isLetter : Nat → Bool) (s : Bytes) : Except PErr (List Seg) :=
  if s = [] then .error .empty
  else if s.head? ≠ some cDot then .error .noLeadingDot
  else if s = [cDot] then .ok [{ str := [cDot], identity := true }]
  else if s = [cDot, cQM] then .ok [{ str := [cDot, cQM], identity := true, optional := true }]
  else
    let (toks, openQuote) := tokenize s
    if openQuote then .error .unterminatedQuote
    else parseLoop isLetter [] toks

/-- `Selector.String` -/
def print (sel : List Seg) : Bytes := (sel.map (·.str)).flatten

end Ucan.Selector
