import Ucan.Model.Envelope
import Ucan.Model.Command
import Ucan.Model.PolicyIpld
/-!
Model of the payload ↔ token conversions: `tokenFromModel` + `validate` (decoding) and `toIPLD`
(encoding) of `token/delegation` and `token/invocation`, and of the typed / generic unsealing entry points.
Times are whole seconds (the wire resolution).
-/
namespace Ucan.Token
open Ucan.Envelope Ucan.Policy

structure TEnv (K : Type) extends Env K where
  lower : Bytes → Bytes          -- strings.ToLower (command grammar)
  isLetter : Nat → Bool          -- \p{L} (selector grammar)

/-- a decoded delegation -/
structure Dlg where
  iss : Did.DID
  aud : Did.DID
  sub : Option Did.DID
  cmd : Bytes
  pol : List PStmt
  nonce : Bytes
  metadata : List (Bytes × Node)
  nbf : Option Int
  exp : Option Int

/-- a decoded invocation -/
structure Inv where
  iss : Did.DID
  sub : Did.DID
  aud : Option Did.DID
  cmd : Bytes
  args : List (Bytes × Node)
  prf : List Bytes
  metadata : List (Bytes × Node)
  nonce : Bytes
  exp : Option Int
  iat : Option Int
  cause : Option Bytes

def key (s : String) : Bytes := asciiBytes s

def getStr (k : String) (kvs : List (Bytes × Node)) : Option Bytes :=
  match Node.lookup (key k) kvs with
  | some (.str s) => some s
  | _ => none

def parseDid {K} (env : TEnv K) (s : Bytes) : Except Err Did.DID :=
  match Did.parse env.mbDecode s with
  | .ok d => .ok d
  | .error _ => .error .field

/-- `parse.OptionalDID`: an absent field is `did.Undef` -/
def optDid {K} (env : TEnv K) (k : String) (kvs : List (Bytes × Node)) : Except Err (Option Did.DID) :=
  match Node.lookup (key k) kvs with
  | none => .ok none
  | some (.str s) => (parseDid env s).map some
  | some _ => .error .field

/-- `parse.OptionalTimestamp`: absent or null is "no bound"; otherwise within ±(2^53−1) -/
def optTimestamp (k : String) (kvs : List (Bytes × Node)) : Except Err (Option Int) :=
  match Node.lookup (key k) kvs with
  | none | some .null => .ok none
  | some (.int i) => if Facts.minInt53 ≤ i ∧ i ≤ Facts.maxInt53 then .ok (some i) else .error .field
  | some _ => .error .field

def optMeta (kvs : List (Bytes × Node)) : List (Bytes × Node) :=
  match Node.lookup (key "meta") kvs with
  | some (.map m) => m
  | _ => []

def parseCmd {K} (env : TEnv K) (kvs : List (Bytes × Node)) : Except Err Bytes :=
  match getStr "cmd" kvs with
  | none => .error .field
  | some c =>
    match Command.parse env.lower c with
    | .ok c => .ok c
    | .error _ => .error .field

/-- `delegation.tokenFromModel` followed by `validate` -/
def dlgFromPayload {K} (env : TEnv K) (kvs : List (Bytes × Node)) : Except Err Dlg :=
  match getStr "iss" kvs, getStr "aud" kvs with
  | some issS, some audS =>
    match parseDid env issS, parseDid env audS, optDid env "sub" kvs, parseCmd env kvs with
    | .ok iss, .ok aud, .ok sub, .ok cmd =>
      match Node.lookup (key "pol") kvs with
      | none => .error .field
      | some polN =>
        match Policy.fromIPLD env.isLetter polN with
        | .error _ => .error .field
        | .ok pol =>
          match Node.lookup (key "nonce") kvs with
          | some (.bytes nonce) =>
            if nonce.length = 0 then .error .field
            else match optTimestamp "nbf" kvs, optTimestamp "exp" kvs with
              | .ok nbf, .ok exp =>
                if nonce.length < Facts.dlgNonceMin then .error .field
                else .ok { iss, aud, sub, cmd, pol, nonce, metadata := optMeta kvs, nbf, exp }
              | _, _ => .error .field
          | _ => .error .field
    | _, _, _, _ => .error .field
  | _, _ => .error .field

def linkBytes : Node → Option Bytes
  | .link c => some c
  | _ => none

/-- `invocation.tokenFromModel` followed by `validate` -/
def invFromPayload {K} (env : TEnv K) (kvs : List (Bytes × Node)) : Except Err Inv :=
  match getStr "iss" kvs, getStr "sub" kvs with
  | some issS, some subS =>
    match parseDid env issS, parseDid env subS, optDid env "aud" kvs, parseCmd env kvs with
    | .ok iss, .ok sub, .ok aud, .ok cmd =>
      match Node.lookup (key "nonce") kvs with
      | some (.bytes nonce) =>
        if nonce.length = 0 then .error .field
        else match Node.lookup (key "args") kvs, Node.lookup (key "prf") kvs with
          | some (.map args), some (.list prfN) =>
            -- `Args.Validate`: every integer of every argument within ±(2^53−1)
            if !(args.all (fun kv => intsInBounds kv.2)) then .error .field
            else match prfN.mapM linkBytes, optTimestamp "exp" kvs, optTimestamp "iat" kvs with
              | some prf, .ok exp, .ok iat =>
                let cause := match Node.lookup (key "cause") kvs with
                  | some (.link c) => some c
                  | _ => none
                if nonce.length < Facts.invNonceMin then .error .field
                else .ok { iss, sub, aud, cmd, args, prf, metadata := optMeta kvs, nonce, exp, iat, cause }
              | _, _, _ => .error .field
          | _, _ => .error .field
      | _ => .error .field   -- absent nonce: "nonce is required"
    | _, _, _, _ => .error .field
  | _, _ => .error .field

/-- `delegation.FromIPLD` -/
def dlgFromIPLD {K} (env : TEnv K) (n : Node) : Except Err Dlg :=
  match Envelope.fromIPLD env.toEnv Facts.dlgTag dlgFields n with
  | .error e => .error e
  | .ok (_, kvs) => dlgFromPayload env kvs

/-- `invocation.FromIPLD` -/
def invFromIPLD {K} (env : TEnv K) (n : Node) : Except Err Inv :=
  match Envelope.fromIPLD env.toEnv Facts.invTag invFields n with
  | .error e => .error e
  | .ok (_, kvs) => invFromPayload env kvs

/-- `token.fromIPLD`: dispatch on the tag found in the envelope -/
def anyFromIPLD {K} (env : TEnv K) (n : Node) : Except Err (Sum Dlg Inv) :=
  match findTag n with
  | .error e => .error e
  | .ok tag =>
    if tag = Facts.dlgTag then (dlgFromIPLD env n).map .inl
    else if tag = Facts.invTag then (invFromIPLD env n).map .inr
    else .error .unknownTag

/-! ### encoding (`toIPLD` of both token types): the payload map in schema order -/

def optEntry (k : String) (v : Option Node) : List (Bytes × Node) :=
  match v with
  | some n => [(key k, n)]
  | none => []

def nullable (v : Option Int) : Node :=
  match v with
  | some i => .int i
  | none => .null

def dlgToPayload (printDid : Did.DID → Bytes) (t : Dlg) : Node :=
  .map ([(key "iss", .str (printDid t.iss)), (key "aud", .str (printDid t.aud))] ++
    optEntry "sub" (t.sub.map (fun d => .str (printDid d))) ++
    [(key "cmd", .str t.cmd), (key "pol", Policy.toIPLD t.pol), (key "nonce", .bytes t.nonce)] ++
    (if t.metadata.isEmpty then [] else [(key "meta", .map t.metadata)]) ++
    optEntry "nbf" (t.nbf.map .int) ++ [(key "exp", nullable t.exp)])

def invToPayload (printDid : Did.DID → Bytes) (t : Inv) : Node :=
  .map ([(key "iss", .str (printDid t.iss)), (key "sub", .str (printDid t.sub))] ++
    optEntry "aud" (t.aud.map (fun d => .str (printDid d))) ++
    [(key "cmd", .str t.cmd), (key "args", .map t.args), (key "prf", .list (t.prf.map .link))] ++
    (if t.metadata.isEmpty then [] else [(key "meta", .map t.metadata)]) ++
    [(key "nonce", .bytes t.nonce), (key "exp", nullable t.exp)] ++
    optEntry "iat" (t.iat.map .int) ++ optEntry "cause" (t.cause.map .link))

/-- `envelope.ToIPLD`: header for the signer's key type, signature over the canonical SigPayload -/
def sealNode (sign : Bytes → Bytes) (header tag : Bytes) (payload : Node) : Node :=
  let sp : Node := .map [(headerKey, .bytes header), (tag, payload)]
  .list [.bytes (sign (Cbor.encode sp)), sp]

end Ucan.Token
