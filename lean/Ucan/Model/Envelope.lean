import Ucan.Model.Cbor
import Ucan.Model.Did
import Ucan.Gen.Facts
/-!
Model of `token/internal/envelope/ipld.go` (`Inspect`, `FindTag`, `FromIPLD`), of the strictness of the
bindnode schema decoding (a DEPENDENCY: go-ipld-prime `bindnode` with the repo's `.ipldsch` files, whose
field tables are the regenerated `Facts.dlgSchema` / `Facts.invSchema`), and of `varsig.Encode`.

Cryptography is a parameter: `verify key message signature`. Keys are whatever the DID model's
unmarshaller parameter yields.
-/
namespace Ucan.Envelope

inductive Err where
  | notEnvelope | sigNotBytes | payloadNotMap | tooManyFields | unexpectedKey | headerNotBytes
  | noHeader | noPayload | wrongTag | unknownTag
  | schema | didParse | pubKey | headerMismatch | badSignature
  | field    -- a payload field fails the token-level validation (tokenFromModel / validate)
  deriving DecidableEq, Repr

/-- "h" -/
def headerKey : Bytes := [104]
/-- "ucan/" -/
def tagPrefix : Bytes := [117, 99, 97, 110, 47]

structure Info where
  sig : Bytes
  header : Bytes
  tag : Bytes
  payload : Node
  sigPayload : Node

/-- one iteration of the loop of `Inspect` over the SigPayload entries: the varsig header (left) or the
    tagged token payload (right) -/
def classifyEntry (k : Bytes) (v : Node) : Except Err (Sum Bytes (Bytes × Node)) :=
  if k = headerKey then
    match v with
    | .bytes h => .ok (.inl h)
    | _ => .error .headerNotBytes
  else if tagPrefix.isPrefixOf k then .ok (.inr (k, v))
  else .error .unexpectedKey

/-- `Inspect`: the envelope is exactly `[signature, {h: header, <ucan/… tag>: payload}]`, entries in either order -/
def inspect : Node → Except Err Info
  | .list [.bytes sig, .map [(k1, v1), (k2, v2)]] =>
    match classifyEntry k1 v1, classifyEntry k2 v2 with
    | .error e, _ => .error e
    | _, .error e => .error e
    | .ok (.inl h), .ok (.inr (t, p)) =>
      .ok { sig := sig, header := h, tag := t, payload := p, sigPayload := .map [(k1, v1), (k2, v2)] }
    | .ok (.inr (t, p)), .ok (.inl h) =>
      .ok { sig := sig, header := h, tag := t, payload := p, sigPayload := .map [(k1, v1), (k2, v2)] }
    | .ok (.inl _), .ok (.inl _) => .error .noPayload
    | .ok (.inr _), .ok (.inr _) => .error .noHeader
  | .list [.bytes _, .map _] => .error .tooManyFields
  | .list [.bytes _, _] => .error .payloadNotMap
  | .list [_, _] => .error .sigNotBytes
  | _ => .error .notEnvelope

/-! ### schema strictness (bindnode) -/

inductive FKind where
  | str | any | bytes | mapAny | int | link | listLink | unknown
  deriving DecidableEq, Repr

structure Field where
  name : Bytes
  kind : FKind
  optional : Bool
  nullable : Bool

def kindOfTypeName (t : String) : FKind :=
  if t == "DID" || t == "String" then .str
  else if t == "Any" then .any
  else if t == "Bytes" then .bytes
  else if t == "{String:Any}" then .mapAny
  else if t == "Int" then .int
  else if t == "Link" then .link
  else if t == "[Link]" then .listLink
  else .unknown

/-- bytes of an ASCII string (field names, tags) -/
def asciiBytes (s : String) : Bytes := s.toList.map (fun c => UInt8.ofNat c.toNat)

def fieldOfFact (f : String × String × Bool × Bool) : Field :=
  { name := asciiBytes f.1, kind := kindOfTypeName f.2.1, optional := f.2.2.1, nullable := f.2.2.2 }

def dlgFields : List Field := Facts.dlgSchema.map fieldOfFact
def invFields : List Field := Facts.invSchema.map fieldOfFact

def isLink : Node → Bool
  | .link _ => true
  | _ => false

/-- does the value fit the declared kind (null only where the schema says nullable, or for `Any`) -/
def valueOk (f : Field) (v : Node) : Bool :=
  match v with
  | .null => f.nullable || f.kind == .any
  | .str _ => f.kind == .str || f.kind == .any
  | .bytes _ => f.kind == .bytes || f.kind == .any
  | .int i => (f.kind == .int && minInt64 ≤ i && i ≤ maxInt64) || f.kind == .any
  | .link _ => f.kind == .link || f.kind == .any
  | .map _ => f.kind == .mapAny || f.kind == .any
  | .list xs => (f.kind == .listLink && xs.all isLink) || f.kind == .any
  | .bool _ => f.kind == .any
  | .float _ => f.kind == .any

def hasDupKeys : List (Bytes × Node) → Bool
  | [] => false
  | (k, _) :: r => r.any (·.1 == k) || hasDupKeys r

/-- strict struct decoding: a map whose keys are all declared, all required fields present, every value
    of the declared kind -/
def decodeStruct (fs : List Field) (n : Node) : Except Err (List (Bytes × Node)) :=
  match n with
  | .map kvs =>
    if hasDupKeys kvs then .error .schema
    else if kvs.any (fun kv => !(fs.any (fun f => f.name == kv.1))) then .error .schema
    else if fs.any (fun f => !f.optional && (Node.lookup f.name kvs).isNone) then .error .schema
    else if kvs.any (fun kv => fs.any (fun f => f.name == kv.1 && !(valueOk f kv.2))) then .error .schema
    else .ok kvs
  | _ => .error .schema

/-! ### varsig and the envelope check -/

def keyTypeOfCode (code : Nat) : String :=
  if code = 0xed then "Ed25519" else if code = 0xe7 then "Secp256k1"
  else if code = 0x1200 ∨ code = 0x1201 ∨ code = 0x1202 then "ECDSA"
  else if code = 0x1205 then "RSA" else "?"

/-- `varsig.Encode(keyType)` -/
def varsigFor (code : Nat) : Option Bytes :=
  (Facts.varsigTable.find? (fun r => r.1 == keyTypeOfCode code)).map (·.2)

/-- the environment: everything that is a library or a cryptographic primitive -/
structure Env (K : Type) where
  mbDecode : Bytes → Option (Byte × Bytes)
  marshal : Nat → K → Bytes
  unmarshal : Nat → Bytes → Option K
  verify : K → Bytes → Bytes → Bool

def issKey : Bytes := [105, 115, 115]

/-- `envelope.FromIPLD[T]`: shape, tag, strict schema, issuer key, header/key-type match, signature over
    the canonical encoding of the SigPayload. Returns the decoded fields of the payload. -/
def fromIPLD {K : Type} (env : Env K) (expectTag : Bytes) (fields : List Field) (n : Node) :
    Except Err (Info × List (Bytes × Node)) :=
  match inspect n with
  | .error e => .error e
  | .ok info =>
    if info.tag ≠ expectTag then .error .wrongTag
    else match decodeStruct fields info.payload with
      | .error e => .error e
      | .ok kvs =>
        match Node.lookup issKey kvs with
        | some (.str iss) =>
          match Did.parse env.mbDecode iss with
          | .error _ => .error .didParse
          | .ok d =>
            match Did.pubKey env.marshal env.unmarshal d with
            | .error _ => .error .pubKey
            | .ok k =>
              if varsigFor d.code ≠ some info.header then .error .headerMismatch
              else if env.verify k (Cbor.encode info.sigPayload) info.sig then .ok (info, kvs)
              else .error .badSignature
        | _ => .error .schema

/-- `envelope.FindTag` + the dispatch of `token.fromIPLD`: which typed decoder handles the node -/
def findTag : Node → Except Err Bytes
  | .list (_ :: .map kvs :: _) =>
    match kvs with
    | (k1, _) :: rest =>
      if tagPrefix.isPrefixOf k1 then .ok k1
      else match rest with
        | (k2, _) :: _ => if tagPrefix.isPrefixOf k2 then .ok k2 else
            (match rest with | [_] => .error .noPayload | _ => .error .tooManyFields)
        | [] => .error .noPayload
    | [] => .error .noPayload
  | _ => .error .notEnvelope

end Ucan.Envelope
