import Ucan.Basic
/-!
Run-time vocabulary of the code that `harness/cmd/go2lean` regenerates from the Go source
(`Ucan/Gen/Code.lean`). A translated Go function is a Lean function into `GoM`, the monad of
"value, Go error, run-time panic, or out of fuel":

* a Go `error` result is `GoErr.err name` (the sentinel `ErrXxx` the error wraps, or its text);
* an index / slice expression out of range and a nil dereference are `GoErr.panic`;
* a `for` loop is a function that recurses structurally on a `fuel` argument; running out of
  fuel is the outcome `GoErr.fuel`, so "the loop terminates" is the theorem "the result is never
  `.fuel` for the fuel the caller passes".

Go `int`/`int64` are modelled as unbounded `Int` (overflow is not modelled; the only translated
arithmetic is index arithmetic bounded by a slice length and the slice-bound clamping of
`resolveSliceIndices`, whose inputs are int64 and whose intermediate values are bounded by them).
Core Lean only.
-/
namespace Ucan.GoM

inductive GoErr where
  | err (name : String)
  | panic (msg : String)
  | fuel
  deriving DecidableEq, Repr

abbrev GoM := Except GoErr

/-- outcome of running a translated loop: the enclosing function returned `r`, or the loop ended
normally with the loop-carried variables `s` -/
inductive LoopOut (ρ σ : Type) where
  | ret (r : ρ)
  | next (s : σ)

/-- `len(x)` -/
def len {α} (xs : List α) : Int := xs.length

/-- `xs[i]` with Go's bounds check -/
def idx {α} (xs : List α) (i : Int) : GoM α :=
  if h : 0 ≤ i ∧ i.toNat < xs.length then pure (xs[i.toNat]'h.2) else throw (.panic "index out of range")

/-- `xs[lo:hi]` with Go's bounds check -/
def slice {α} (xs : List α) (lo hi : Int) : GoM (List α) :=
  if 0 ≤ lo ∧ lo ≤ hi ∧ hi ≤ xs.length then pure ((xs.drop lo.toNat).take (hi - lo).toNat)
  else throw (.panic "slice bounds out of range")

/-- `string(b)` for a byte `b`: the UTF-8 encoding of the code point `b` — one byte below 0x80, two bytes from there on
(so it never equals a one-byte ASCII string then) -/
def byteToString (b : UInt8) : List UInt8 :=
  if b < 128 then [b] else [(0xC0 : UInt8) ||| (b >>> 6), (0x80 : UInt8) ||| (b &&& 0x3F)]

/-- `x, err := f(); if err != nil { return …, e }` with an `e` that does not mention `err`: an error VALUE of the callee is
replaced; a panic is not an error value and goes on unwinding -/
def replaceErr {α} (m : GoM α) (e : GoErr) : GoM α :=
  match m with
  | .ok v => .ok v
  | .error (.err _) => .error e
  | .error other => .error other

/-- `copy(dst[:], src)` for a fixed-size array `dst`: its first `min(len dst, len src)` bytes are replaced, its length stays -/
def copyInto (dst src : List UInt8) : List UInt8 :=
  src.take dst.length ++ dst.drop src.length

/-- `*p` -/
def deref {α} : Option α → GoM α
  | some a => pure a
  | none => throw (.panic "nil pointer dereference")

/-- `a && b` where evaluating `b` may panic: `b` is evaluated only when `a` holds -/
def gand (a : Bool) (b : GoM Bool) : GoM Bool := if a then b else pure false

/-- `a || b` where evaluating `b` may panic: `b` is evaluated only when `a` does not hold -/
def gor (a : Bool) (b : GoM Bool) : GoM Bool := if a then pure true else b

/-- `_, err := f(); return err == nil`: the call is only probed for an error VALUE; a panic of the callee goes on unwinding -/
def isOk {α} (m : GoM α) : GoM Bool :=
  match m with
  | .ok _ => .ok true
  | .error (.err _) => .ok false
  | .error other => .error other

/-- `x, err := f(); if err != nil { …answer with a value… }`: the callee's error VALUE is observed (`none`), its result otherwise;
a panic (or exhausted fuel) of the callee is not an error value and stays what it is -/
def attempt {α} (m : GoM α) : GoM (Option α) :=
  match m with
  | .ok v => .ok (some v)
  | .error (.err _) => .ok none
  | .error other => .error other

/-- `x, err := f(); if err != nil { panic(…) }`: the callee's error value becomes a panic of the caller -/
def errToPanic {α} (m : GoM α) : GoM α :=
  match m with
  | .ok v => .ok v
  | .error (.err n) => .error (.panic n)
  | .error other => .error other

/-- the four encodings `encoding/base64` predefines (which one a decoder is given is part of what a translation shows) -/
inductive B64Enc where
  | std | url | rawStd | rawUrl
  deriving DecidableEq, Repr

/-- `errs = errors.Join(errs, e)` with a non-nil `e`: the accumulated error is non-nil afterwards (the model keeps the first) -/
def joinErr (errs : Option GoErr) (e : GoErr) : Option GoErr := some (errs.getD e)

/-- `strings.Split(s, sep)` for a non-empty separator: the pieces of `s` between the (non-overlapping, leftmost) occurrences
of `sep`; never empty (`"" ↦ [""]`). `fuel` bounds the scan (the callers pass `s.length + 1`). -/
def splitOnAux (sep : List UInt8) : Nat → List UInt8 → List UInt8 → List (List UInt8)
  | 0, cur, _ => [cur.reverse]
  | _ + 1, cur, [] => [cur.reverse]
  | fuel + 1, cur, b :: rest =>
    if sep ≠ [] ∧ sep.isPrefixOf (b :: rest) then cur.reverse :: splitOnAux sep fuel [] ((b :: rest).drop sep.length)
    else splitOnAux sep fuel (b :: cur) rest

def splitOn (s sep : List UInt8) : List (List UInt8) := splitOnAux sep (s.length + 1) [] s

/-- `p != nil` for a pointer -/
def notNil {α} (p : Option α) : Bool := p.isSome

end Ucan.GoM
