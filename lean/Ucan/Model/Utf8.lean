import Ucan.Basic
/-!
Go's UTF-8 semantics for `[]rune(s)` and `string(runes)` (package unicode/utf8): an invalid byte decodes
to U+FFFD and consumes one byte; overlong forms, surrogates and values above U+10FFFF are invalid.
Used by string slicing in selectors (`selector.go`: `runes := []rune(str)`) and by the field-name
recogniser of the selector parser (Go's regexp decodes the same way).
-/
namespace Ucan.Utf8

def runeError : Nat := 0xFFFD

def isCont (b : Byte) : Bool := 0x80 ≤ b.toNat && b.toNat ≤ 0xBF

/-- decode one rune: (rune, number of bytes consumed ≥ 1) -/
def decodeOne : Bytes → Nat × Nat
  | [] => (runeError, 0)
  | b0 :: r =>
    let n0 := b0.toNat
    if n0 < 0x80 then (n0, 1)
    else if 0xC2 ≤ n0 ∧ n0 ≤ 0xDF then
      match r with
      | b1 :: _ => if isCont b1 then ((n0 % 32) * 64 + b1.toNat % 64, 2) else (runeError, 1)
      | _ => (runeError, 1)
    else if 0xE0 ≤ n0 ∧ n0 ≤ 0xEF then
      match r with
      | b1 :: b2 :: _ =>
        let lo := if n0 = 0xE0 then 0xA0 else 0x80
        let hi := if n0 = 0xED then 0x9F else 0xBF
        if lo ≤ b1.toNat ∧ b1.toNat ≤ hi ∧ isCont b2 then
          ((n0 % 16) * 4096 + (b1.toNat % 64) * 64 + b2.toNat % 64, 3)
        else (runeError, 1)
      | _ => (runeError, 1)
    else if 0xF0 ≤ n0 ∧ n0 ≤ 0xF4 then
      match r with
      | b1 :: b2 :: b3 :: _ =>
        let lo := if n0 = 0xF0 then 0x90 else 0x80
        let hi := if n0 = 0xF4 then 0x8F else 0xBF
        if lo ≤ b1.toNat ∧ b1.toNat ≤ hi ∧ isCont b2 ∧ isCont b3 then
          ((n0 % 8) * 262144 + (b1.toNat % 64) * 4096 + (b2.toNat % 64) * 64 + b3.toNat % 64, 4)
        else (runeError, 1)
      | _ => (runeError, 1)
    else (runeError, 1)

/-- `[]rune(s)` -/
def decode (s : Bytes) : List Nat :=
  go s.length s
where
  go : Nat → Bytes → List Nat
    | 0, _ => []
    | _, [] => []
    | fuel + 1, s =>
      let (r, n) := decodeOne s
      r :: go fuel (s.drop (max n 1))

def encodeOne (r : Nat) : Bytes :=
  let r := if (0xD800 ≤ r ∧ r ≤ 0xDFFF) ∨ r > 0x10FFFF then runeError else r
  if r < 0x80 then [UInt8.ofNat r]
  else if r < 0x800 then [UInt8.ofNat (0xC0 + r / 64), UInt8.ofNat (0x80 + r % 64)]
  else if r < 0x10000 then
    [UInt8.ofNat (0xE0 + r / 4096), UInt8.ofNat (0x80 + (r / 64) % 64), UInt8.ofNat (0x80 + r % 64)]
  else
    [UInt8.ofNat (0xF0 + r / 262144), UInt8.ofNat (0x80 + (r / 4096) % 64),
     UInt8.ofNat (0x80 + (r / 64) % 64), UInt8.ofNat (0x80 + r % 64)]

/-- `string(runes)` -/
def encode (rs : List Nat) : Bytes := rs.flatMap encodeOne

end Ucan.Utf8
