import Ucan.Model.Selector
import Ucan.Model.Glob
/-!
Model of `pkg/policy/match.go`: `Policy.Match`, `Policy.PartialMatch`, `matchStatement`, `isOrdered`.

`Res` is Go's `matchResult`. The loops of the `and`/`or`/`all`/`any` cases are `andLoop`/`orLoop` over the
results of the children, in source order, with the same early exits and the same running result as the
Go code (a false operand of `and`, a true operand of `or` is decisive and returns at once; otherwise
"no data" is remembered over "optional no data" over the neutral result).
Children are pure (no panics once integers fit int64, see C09), so evaluating all of them before the
loop, as the model does, gives the same result as the lazy Go loop.
-/
namespace Ucan.Policy
open Ucan.Selector

inductive Res where
  | t          -- matchResultTrue
  | f          -- matchResultFalse
  | noData     -- matchResultNoData
  | optNoData  -- matchResultOptionalNoData
  deriving DecidableEq, Repr

inductive Op where
  | eq | gt | gte | lt | lte
  deriving DecidableEq, Repr

inductive Stmt where
  | cmp (op : Op) (sel : List Seg) (v : Node)
  | like (sel : List Seg) (pat : List Glob.Tok)
  | not (s : Stmt)
  | and (ss : List Stmt)
  | or (ss : List Stmt)
  | all (sel : List Seg) (s : Stmt)
  | any (sel : List Seg) (s : Stmt)

def Res.ofBool (b : Bool) : Res := if b then .t else .f

/-- `satisfies(order)` for gt/gte/lt/lte -/
def Op.satisfies : Op → Int → Bool
  | .gt, o => o == 1
  | .gte, o => o == 0 || o == 1
  | .lt, o => o == -1
  | .lte, o => o == 0 || o == -1
  | .eq, o => o == 0

def compareInt (a b : Int) : Int := if a < b then -1 else if a > b then 1 else 0

/-- `isOrdered(expected, actual, satisfies)` -/
def isOrdered (expected actual : Node) (op : Op) : Bool :=
  match expected, actual with
  | .int b, .int a => intFits64 a && intFits64 b && op.satisfies (compareInt a b)
  | .float b, .float a =>
    if Float64.isInf a || Float64.isNaN a || Float64.isInf b || Float64.isNaN b then false
    else op.satisfies (Float64.compare a b)
  | _, _ => false

/-- the comparison of an `equality` statement once the selector produced a value -/
def cmpOp (op : Op) (expected actual : Node) : Bool :=
  match op with
  | .eq => Node.deepEq expected actual
  | op => isOrdered expected actual op

/-- the `for` loop of `KindAnd` / `KindAll` over the children's results; `acc` is the running result -/
def andLoop : Res → List Res → Res
  | acc, [] => acc
  | _, .f :: _ => .f                                          -- decisive: return at once
  | _, .noData :: rs => andLoop .noData rs
  | acc, .optNoData :: rs => andLoop (if acc = .t then .optNoData else acc) rs
  | acc, .t :: rs => andLoop acc rs

/-- the `for` loop of `KindOr` / `KindAny` -/
def orLoop : Res → List Res → Res
  | acc, [] => acc
  | _, .t :: _ => .t                                          -- decisive: return at once
  | _, .noData :: rs => orLoop .noData rs
  | acc, .optNoData :: rs => orLoop (if acc = .f then .optNoData else acc) rs
  | acc, .f :: rs => orLoop acc rs

mutual
/-- `matchStatement(cur, node)` -/
def matchStmt : Stmt → Node → Res
  | .cmp op sel v, n =>
    match select sel n with
    | .error _ => .noData
    | .ok none => .optNoData
    | .ok (some r) => Res.ofBool (cmpOp op v r)
  | .like sel pat, n =>
    match select sel n with
    | .error _ => .noData
    | .ok none => .optNoData
    | .ok (some (.str s)) => Res.ofBool (Glob.globMatch pat s)
    | .ok (some _) => .f                                      -- not a string
  | .not s, n =>
    match matchStmt s n with
    | .t => .f
    | .f => .t
    | r => r
  | .and ss, n => andLoop .t (matchList ss n)
  | .or ss, n => if ss.isEmpty then .t else orLoop .f (matchList ss n)
  | .all sel s, n =>
    match select sel n with
    | .error _ => .noData
    | .ok none => .optNoData
    | .ok (some (.list xs)) => andLoop .t (xs.map (fun x => matchStmt s x))
    | .ok (some _) => .f                                      -- not a list
  | .any sel s, n =>
    match select sel n with
    | .error _ => .noData
    | .ok none => .optNoData
    | .ok (some (.list xs)) => orLoop .f (xs.map (fun x => matchStmt s x))
    | .ok (some _) => .f
def matchList : List Stmt → Node → List Res
  | [], _ => []
  | s :: ss, n => matchStmt s n :: matchList ss n
end

/-- `Policy.Match`: every statement is true or has only optional data missing -/
def Match : List Stmt → Node → Bool
  | [], _ => true
  | s :: p, n =>
    match matchStmt s n with
    | .noData | .f => false
    | .optNoData | .t => Match p n

/-- `Policy.PartialMatch`: only a statement that has its data and is false fails -/
def PartialMatch : List Stmt → Node → Bool
  | [], _ => true
  | s :: p, n =>
    match matchStmt s n with
    | .f => false
    | .noData | .optNoData | .t => PartialMatch p n

end Ucan.Policy
