import Ucan.Model.Node
/-!
Model for C20 (immutability of tokens under read-only use).

* `TokState` — the mutable memory behind a token that read-only methods could touch: the key ORDER of the
  arguments (`Args.Keys`, a shared slice) and of the metadata (`Meta.Keys`), and the key→value maps.
* each read-only operation is a function `TokState → TokState × Out`: the state it leaves behind and what it
  returns. Rendering of the Go methods (after "sort a copy"): `Args.ToIPLD`, `Args.String`, `Meta.String`,
  `Iter`, accessors, `Equals`, `Clone`; `ExecutionAllowed`/`verifyArgs` and `ToSealed`/`toIPLD` use the
  token only through these.
* threads and schedules: a thread is a list of atomic steps on (shared, local) memory; a schedule is the
  list of thread ids in the order their next step runs.

What this cannot exhibit: the Go memory model itself (word tearing, visibility, compiler reordering); the
race detector run of the `immut` stream is a TEST that supports the tie, not a proof.
-/
namespace Ucan.Immut

structure TokState where
  argKeys : List Bytes
  argVals : List (Bytes × Node)
  metaKeys : List Bytes
  metaVals : List (Bytes × Node)
  /-- the invocation's proof links (`t.proof`); there is no cache of the delegations they resolve to:
      every check asks the loader it is given -/
  proofs : List Bytes := []
  /-- the cells beyond `len` of the policy slice of a delegation the invocation relies on (spare capacity
      of a slice shared with every other user of that delegation); `none` = the zero value -/
  dlgPolicySpare : List (Option Bytes) := []

/-- insertion sort of byte strings (Go: `sort.Strings` on a COPY of the key slice) -/
def bytesLe : Bytes → Bytes → Bool
  | [], _ => true
  | _ :: _, [] => false
  | a :: as, b :: bs => a.toNat < b.toNat || (a == b && bytesLe as bs)

def insertSorted (k : Bytes) : List Bytes → List Bytes
  | [] => [k]
  | x :: xs => if bytesLe k x then k :: x :: xs else x :: insertSorted k xs

def sortKeys (ks : List Bytes) : List Bytes := ks.foldr insertSorted []

/-- `Args.ToIPLD` on the arguments as supplied (keys in supply order): ONE map, keys sorted. What the policies of a chain
are matched on (and what is sealed) is this node. -/
def argsNode (kvs : List (Bytes × Node)) : Node :=
  .map ((sortKeys (kvs.map (·.1))).filterMap (fun k => (Node.lookup k kvs).map (fun v => (k, v))))

inductive Out where
  | node (n : Node)
  | keys (ks : List Bytes)
  | entries (es : List (Bytes × Option Node))
  | flag (b : Bool)
  | unit

def entriesOf (ks : List Bytes) (vals : List (Bytes × Node)) : List (Bytes × Option Node) :=
  ks.map (fun k => (k, Node.lookup k vals))

/-- `Args.ToIPLD`: a map with the keys in sorted order; the token's own key slice is left alone -/
def argsToIPLD (s : TokState) : TokState × Out :=
  (s, .node (.map ((sortKeys s.argKeys).filterMap (fun k => (Node.lookup k s.argVals).map (fun v => (k, v))))))

/-- `Args.String` / `Meta.String`: print in sorted key order (the output is represented by that order) -/
def argsString (s : TokState) : TokState × Out := (s, .entries (entriesOf (sortKeys s.argKeys) s.argVals))
def metaString (s : TokState) : TokState × Out := (s, .entries (entriesOf (sortKeys s.metaKeys) s.metaVals))

/-- `Args.Iter` / `Meta.Iter`: in insertion order -/
def argsIter (s : TokState) : TokState × Out := (s, .entries (entriesOf s.argKeys s.argVals))
def metaIter (s : TokState) : TokState × Out := (s, .entries (entriesOf s.metaKeys s.metaVals))

/-- `verifyArgs` (inside `ExecutionAllowed`) and `toIPLD` (inside `ToSealed`/`Encode`) read the arguments
    through `ToIPLD`, the metadata through the bound struct -/
def executionAllowedArgs (s : TokState) : TokState × Out := argsToIPLD s
def sealReads (s : TokState) : TokState × Out :=
  let (s1, a) := argsToIPLD s
  let (s2, _) := metaIter s1
  (s2, a)

/-- `ExecutionAllowedWithArgsHook`: the check runs on the arguments the hook returns (`executionAllowed(loader,
    newArgs)`, a parameter — the token's `arguments` field is not reassigned); what any reader sees of the
    token's own arguments during and after the call is what `ToIPLD` shows -/
def executionAllowedHook (s : TokState) : TokState × Out := argsToIPLD s

/-- `ExecutionAllowed` with a loader that has none of the proofs: `loadProofs` asks the loader for every
    link of `t.proof` each time, so the answer is "missing" unless there is nothing to load; the output
    stands for "failed as it must", then the arguments as any reader sees them -/
def executionAllowedMissing (s : TokState) : TokState × Out := argsToIPLD s

/-- `ExecutionAllowedWithArgsHook` with a hook whose result violates the chain's policy: the check is refused
    (the hook's arguments decide), the token's own arguments stay what they were and are not remembered -/
def executionAllowedHookDenied (s : TokState) : TokState × Out := argsToIPLD s

/-- `ExecutionAllowedWithArgsHook` with a hook that hands back `WriteableClone()` untouched: the clone is the
    hook's own copy; whatever the validator does with it does not reach the token -/
def executionAllowedHookClone (s : TokState) : TokState × Out := argsToIPLD s

/-- `ExecutionAllowed` (no hook) refused BY THE POLICY of a delegation of its chain: the refusal — and whatever text it
    carries about the statement and the arguments — is computed from copies; the token's own arguments stay what they were -/
def executionAllowedDenied (s : TokState) : TokState × Out := argsToIPLD s

/-- the read-only operations of the stream -/
inductive ROp where
  | argsToIPLD | argsString | metaString | argsIter | metaIter | executionAllowed | seal
  | executionAllowedHook | executionAllowedMissing | executionAllowedHookDenied | executionAllowedHookClone
  | executionAllowedDenied
  deriving DecidableEq, Repr

def runOp : ROp → TokState → TokState × Out
  | .argsToIPLD => Immut.argsToIPLD
  | .argsString => Immut.argsString
  | .metaString => Immut.metaString
  | .argsIter => Immut.argsIter
  | .metaIter => Immut.metaIter
  | .executionAllowed => Immut.executionAllowedArgs
  | .seal => Immut.sealReads
  | .executionAllowedHook => Immut.executionAllowedHook
  | .executionAllowedMissing => Immut.executionAllowedMissing
  | .executionAllowedHookDenied => Immut.executionAllowedHookDenied
  | .executionAllowedHookClone => Immut.executionAllowedHookClone
  | .executionAllowedDenied => Immut.executionAllowedDenied

/-! ### threads and schedules -/

/-- an atomic step of a thread on shared memory `S` and its own local memory `L` -/
abbrev Step (S L : Type) := S → L → S × L

/-- run a schedule: `sched` lists which thread takes its next step; `progs t` are the remaining steps of
    thread `t`, `locals t` its local memory -/
def runSchedule {S L : Type} : List Nat → (Nat → List (Step S L)) → S → (Nat → L) → S × (Nat → L)
  | [], _, s, locals => (s, locals)
  | t :: rest, progs, s, locals =>
    match progs t with
    | [] => runSchedule rest progs s locals
    | st :: more =>
      let (s', l') := st s (locals t)
      runSchedule rest (fun u => if u = t then more else progs u) s' (fun u => if u = t then l' else locals u)

/-- a thread run alone from shared state `s` -/
def runAlone {S L : Type} : List (Step S L) → S → L → S × L
  | [], s, l => (s, l)
  | st :: more, s, l =>
    let (s', l') := st s l
    runAlone more s' l'

end Ucan.Immut
