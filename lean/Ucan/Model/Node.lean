import Ucan.Basic
/-!
IPLD data model as go-ipld-prime's `basicnode` presents it to go-ucan.

* `int` is unbounded so that `plainUint` values above MaxInt64 are representable; "fits int64" is an
  explicit predicate (`Node.fitsInt64`) — `AsInt` on such a node errors and `must.Int` panics.
* `float` carries the IEEE-754 bits; comparisons are defined on the bits (`Float64` below), no Lean
  `Float` is used anywhere.
* maps keep insertion order (a list of pairs); lookups return the first match. basicnode refuses
  duplicate keys at assembly, so generated inputs never contain them.
-/
namespace Ucan

inductive Node where
  | null
  | bool (b : Bool)
  | int (i : Int)
  | float (bits : UInt64)
  | str (s : Bytes)
  | bytes (b : Bytes)
  | list (xs : List Node)
  | map (kvs : List (Bytes × Node))
  | link (cid : Bytes)
  deriving Repr, Inhabited

inductive Kind where
  | null | bool | int | float | str | bytes | list | map | link
  deriving DecidableEq, Repr

namespace Node

def kind : Node → Kind
  | .null => .null | .bool _ => .bool | .int _ => .int | .float _ => .float | .str _ => .str
  | .bytes _ => .bytes | .list _ => .list | .map _ => .map | .link _ => .link

def lookup (k : Bytes) : List (Bytes × Node) → Option Node
  | [] => none
  | (k', v) :: r => if k = k' then some v else lookup k r

def values (kvs : List (Bytes × Node)) : List Node := kvs.map (·.2)

end Node

/-! IEEE-754 binary64 on bit patterns -/
namespace Float64

def expBits (b : UInt64) : Nat := (b.toNat / 2 ^ 52) % 2048
def mantBits (b : UInt64) : Nat := b.toNat % 2 ^ 52
def sign (b : UInt64) : Bool := b.toNat ≥ 2 ^ 63
def isNaN (b : UInt64) : Bool := expBits b == 2047 && mantBits b != 0
def isInf (b : UInt64) : Bool := expBits b == 2047 && mantBits b == 0
def magnitude (b : UInt64) : Nat := b.toNat % 2 ^ 63

/-- order-preserving key of a non-NaN value: sign-magnitude read as an integer (−0 and +0 both 0) -/
def key (b : UInt64) : Int := if sign b then - (magnitude b : Int) else (magnitude b : Int)

/-- Go `==` on float64 -/
def eq (a b : UInt64) : Bool := !isNaN a && !isNaN b && key a == key b

/-- `cmp.Compare` on two non-NaN floats: -1, 0, 1 -/
def compare (a b : UInt64) : Int :=
  if key a < key b then -1 else if key a > key b then 1 else 0

end Float64

/-! `datamodel.DeepEqual`: same kind, scalars by Go `==`, lists and maps element-wise in iteration
order (maps are order-sensitive). Integers beyond int64 make `AsInt` fail and DeepEqual panic; the
caller (`deepEqual` in match.go) recovers and answers "not equal": a pair of integers of which one
does not fit int64 is therefore unequal, even when both are the same number. -/
def minInt64 : Int := -9223372036854775808
def maxInt64 : Int := 9223372036854775807
def intFits64 (i : Int) : Bool := minInt64 ≤ i && i ≤ maxInt64

mutual
def Node.deepEq : Node → Node → Bool
  | .null, .null => true
  | .bool a, .bool b => a == b
  | .int a, .int b => intFits64 a && intFits64 b && a == b
  | .float a, .float b => Float64.eq a b
  | .str a, .str b => a == b
  | .bytes a, .bytes b => a == b
  | .link a, .link b => a == b
  | .list a, .list b => Node.deepEqList a b
  | .map a, .map b => Node.deepEqMap a b
  | _, _ => false
def Node.deepEqList : List Node → List Node → Bool
  | [], [] => true
  | x :: xs, y :: ys => Node.deepEq x y && Node.deepEqList xs ys
  | _, _ => false
def Node.deepEqMap : List (Bytes × Node) → List (Bytes × Node) → Bool
  | [], [] => true
  | (k, x) :: xs, (k', y) :: ys => k == k' && Node.deepEq x y && Node.deepEqMap xs ys
  | _, _ => false
end

mutual
/-- every integer in the tree is representable as int64 (no `plainUint` above MaxInt64) -/
def Node.fitsInt64 : Node → Bool
  | .int i => intFits64 i
  | .list xs => Node.fitsInt64List xs
  | .map kvs => Node.fitsInt64Map kvs
  | _ => true
def Node.fitsInt64List : List Node → Bool
  | [] => true
  | x :: xs => Node.fitsInt64 x && Node.fitsInt64List xs
def Node.fitsInt64Map : List (Bytes × Node) → Bool
  | [] => true
  | (_, x) :: xs => Node.fitsInt64 x && Node.fitsInt64Map xs
end

end Ucan
