import Ucan.Model.Policy
import Ucan.Model.Command
/-!
Model of the authorization decision: `token/invocation/invocation.go` (`executionAllowed`, `loadProofs`,
`IsValidAt`), `token/invocation/proof.go` (`verifyProofs`, `verifyTimeBoundAt`, `verifyArgs`) and
`token/delegation/delegation.go` (`IsValidAt`).

Principals are an arbitrary type `D` with decidable equality (Go: the comparable struct `did.DID`);
an absent subject (`did.Undef`, a "powerline" delegation) is `none`. Time is an integer (nanoseconds).
CIDs are an arbitrary type `C`. The loader is a function `C → Option Dlg` (`none` = GetDelegation failed).
-/
namespace Ucan.Chain
open Ucan.Policy

inductive Err where
  | noProof | missingDelegation | wrongSub | brokenChain | commandNotCovered | lastNotRoot
  | tokenInvalidNow | policyNotSatisfied | hookError
  deriving DecidableEq, Repr

/-- a delegation as the validator sees it -/
structure Dlg (D : Type) where
  iss : D
  aud : D
  sub : Option D
  cmd : Bytes
  pol : List Stmt
  nbf : Option Int
  exp : Option Int

/-- an invocation; the last five fields are the ones the property calls irrelevant to authorization -/
structure Inv (D C X : Type) where
  iss : D
  sub : D
  cmd : Bytes
  args : Node
  prf : List C
  exp : Option Int
  aud : Option D
  nonce : X
  metadata : X
  cause : X
  iat : X

variable {D C X : Type} [DecidableEq D]

/-- `loadProofs`: the first missing delegation aborts -/
def loadProofs (ld : C → Option (Dlg D)) : List C → Except Err (List (Dlg D))
  | [] => .ok []
  | c :: cs =>
    match ld c with
    | none => .error .missingDelegation
    | some d =>
      match loadProofs ld cs with
      | .error e => .error e
      | .ok ds => .ok (d :: ds)

/-- the `for` loop of `verifyProofs` with its running issuer and command; the first failing test wins -/
def proofLoop (sub : D) : D → Bytes → List (Dlg D) → Except Err Unit
  | _, _, [] => .ok ()
  | iss, cmd, d :: ds =>
    if d.sub ≠ some sub then .error .wrongSub
    else if d.aud ≠ iss then .error .brokenChain
    else if ¬ Command.covers d.cmd cmd then .error .commandNotCovered
    else proofLoop sub d.iss d.cmd ds

/-- `verifyProofs` -/
def verifyProofs (inv : Inv D C X) (ds : List (Dlg D)) : Except Err Unit :=
  if ds.length < 1 then .error .noProof
  else
    match proofLoop inv.sub inv.iss inv.cmd ds with
    | .error e => .error e
    | .ok () =>
      match ds.getLast? with
      | some last => if some last.iss ≠ last.sub then .error .lastNotRoot else .ok ()
      | none => .error .noProof   -- unreachable: ds is not empty

/-- `t.expiration != nil && ti.After(*t.expiration)` -/
def afterBound (exp : Option Int) (t : Int) : Bool :=
  match exp with
  | some e => decide (t > e)
  | none => false

/-- `t.notBefore != nil && ti.Before(*t.notBefore)` -/
def beforeBound (nbf : Option Int) (t : Int) : Bool :=
  match nbf with
  | some b => decide (t < b)
  | none => false

/-- `delegation.Token.IsValidAt` -/
def Dlg.validAt (d : Dlg D) (t : Int) : Bool :=
  if afterBound d.exp t then false
  else if beforeBound d.nbf t then false
  else true

/-- `invocation.Token.IsValidAt` -/
def Inv.validAt (inv : Inv D C X) (t : Int) : Bool :=
  if afterBound inv.exp t then false else true

/-- `verifyTimeBoundAt` -/
def verifyTime (now : Int) (inv : Inv D C X) (ds : List (Dlg D)) : Except Err Unit :=
  if ¬ inv.validAt now then .error .tokenInvalidNow
  else if ds.all (fun d => d.validAt now) then .ok () else .error .tokenInvalidNow

/-- `verifyArgs`: the policies of all links are concatenated and matched against the arguments -/
def verifyArgs (ds : List (Dlg D)) (args : Node) : Except Err Unit :=
  if Match (ds.map (·.pol)).flatten args then .ok () else .error .policyNotSatisfied

/-- `executionAllowed(loader, arguments)`: the four stages in their fixed order -/
def executionAllowed (ld : C → Option (Dlg D)) (now : Int) (inv : Inv D C X) (args : Node) : Except Err Unit :=
  match loadProofs ld inv.prf with
  | .error e => .error e
  | .ok ds =>
    match verifyProofs inv ds with
    | .error e => .error e
    | .ok () =>
      match verifyTime now inv ds with
      | .error e => .error e
      | .ok () => verifyArgs ds args

/-- `ExecutionAllowed(loader)` -/
def allowed (ld : C → Option (Dlg D)) (now : Int) (inv : Inv D C X) : Except Err Unit :=
  executionAllowed ld now inv inv.args

/-- `ExecutionAllowedWithArgsHook(loader, hook)`: the hook's result is what is checked -/
def allowedWithHook (ld : C → Option (Dlg D)) (now : Int) (inv : Inv D C X) (hook : Node → Option Node) :
    Except Err Unit :=
  match hook inv.args with
  | none => .error .hookError
  | some a => executionAllowed ld now inv a

end Ucan.Chain
