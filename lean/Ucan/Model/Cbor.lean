import Ucan.Model.Node
/-!
DAG-CBOR as go-ucan uses it through go-ipld-prime (`dagcbor.Encode` / `dagcbor.Decode`): this is a
DEPENDENCY, modelled by its contract, not verified.

* `encode` — canonical form: shortest heads, definite lengths, 64-bit floats, tag 42 links, map entries in
  the order given (go-ipld-prime sorts keys length-first then bytewise while encoding; the predicate
  `keysSorted` says a tree is already in that order, and `accept` requires it).
* `decode` — lenient head reader (any argument width), definite lengths only, fuel-indexed.
* `accept` — what `FromSealed` accepts once it compares the re-encoded node with the received bytes.
-/
namespace Ucan.Cbor

/-- big-endian, fixed width -/
def beBytes : Nat → Nat → Bytes
  | 0, _ => []
  | w + 1, n => UInt8.ofNat ((n / 256 ^ w) % 256) :: beBytes w n

def beVal : Bytes → Nat
  | [] => 0
  | b :: r => b.toNat * 256 ^ r.length + beVal r

/-- canonical (shortest) head for major type `m` and argument `n` -/
def head (m : Nat) (n : Nat) : Bytes :=
  if n < 24 then [UInt8.ofNat (m * 32 + n)]
  else if n < 256 then UInt8.ofNat (m * 32 + 24) :: beBytes 1 n
  else if n < 65536 then UInt8.ofNat (m * 32 + 25) :: beBytes 2 n
  else if n < 4294967296 then UInt8.ofNat (m * 32 + 26) :: beBytes 4 n
  else UInt8.ofNat (m * 32 + 27) :: beBytes 8 n

mutual
def encode : Node → Bytes
  | .null => [0xf6]
  | .bool false => [0xf4]
  | .bool true => [0xf5]
  | .int i => if 0 ≤ i then head 0 i.toNat else head 1 (-1 - i).toNat
  | .float b => 0xfb :: beBytes 8 b.toNat
  | .str s => head 3 s.length ++ s
  | .bytes b => head 2 b.length ++ b
  | .link c => head 6 42 ++ head 2 (c.length + 1) ++ (0 :: c)
  | .list xs => head 4 xs.length ++ encodeList xs
  | .map kvs => head 5 kvs.length ++ encodeMap kvs
def encodeList : List Node → Bytes
  | [] => []
  | x :: xs => encode x ++ encodeList xs
def encodeMap : List (Bytes × Node) → Bytes
  | [] => []
  | (k, v) :: kvs => head 3 k.length ++ k ++ encode v ++ encodeMap kvs
end

/-- unsigned varint as go-varint reads it: at most 9 bytes, minimally encoded; (value, rest) -/
def readUvarint : Nat → Bytes → Option (Nat × Bytes)
  | 0, _ => none
  | _, [] => none
  | fuel + 1, b :: r =>
    if b.toNat < 128 then some (b.toNat, r)
    else match readUvarint fuel r with
      | none => none
      | some (v, r') => if v = 0 then none else some (b.toNat - 128 + 128 * v, r')

/-- the bytes are a CID as go-cid's `Cast` accepts it: CIDv0 (a bare sha2-256 multihash) or
    version 1 + codec + multihash (code, length, digest of exactly that length) -/
def cidValid (c : Bytes) : Bool :=
  if c.length = 34 ∧ c.head? = some 0x12 ∧ c[1]? = some 0x20 then true
  else match readUvarint 9 c with
    | some (1, r1) =>
      match readUvarint 9 r1 with
      | some (_, r2) =>
        match readUvarint 9 r2 with
        | some (_, r3) =>
          match readUvarint 9 r3 with
          | some (len, digest) => digest.length == len
          | none => false
        | none => false
      | none => false
    | _ => false

/-- lenient head reader: (major, additional info, argument, rest); any argument width is accepted -/
def readHead : Bytes → Option (Nat × Nat × Nat × Bytes)
  | [] => none
  | b :: r =>
    let major := b.toNat / 32
    let ai := b.toNat % 32
    if ai < 24 then some (major, ai, ai, r)
    else
      let w := if ai = 24 then 1 else if ai = 25 then 2 else if ai = 26 then 4 else if ai = 27 then 8 else 0
      if w = 0 then none
      else if r.length < w then none
      else some (major, ai, beVal (r.take w), r.drop w)

mutual
def decodeF : Nat → Bytes → Option (Node × Bytes)
  | 0, _ => none
  | fuel + 1, bs =>
    match readHead bs with
    | none => none
    | some (major, ai, n, r) =>
      if major = 0 then some (.int n, r)
      else if major = 1 then
        -- go-ipld-prime represents negative integers as int64 only
        if n ≥ 2 ^ 63 then none else some (.int (-1 - (n : Int)), r)
      else if major = 2 then
        if r.length < n then none else some (.bytes (r.take n), r.drop n)
      else if major = 3 then
        if r.length < n then none else some (.str (r.take n), r.drop n)
      else if major = 4 then
        match decodeListF fuel n r with
        | none => none
        | some (xs, r') => some (.list xs, r')
      else if major = 5 then
        match decodeMapF fuel n r with
        | none => none
        | some (kvs, r') => some (.map kvs, r')
      else if major = 6 then
        -- only tag 42, on a byte string that starts with the identity multibase byte 0x00
        if n ≠ 42 then none
        else match readHead r with
          | some (2, _, len, r2) =>
            if r2.length < len then none
            else match r2.take len with
              | 0 :: c => if cidValid c then some (.link c, r2.drop len) else none
              | _ => none
          | _ => none
      else -- major 7: simple values and floats
        if ai = 20 then some (.bool false, r)
        else if ai = 21 then some (.bool true, r)
        else if ai = 22 then some (.null, r)
        else if ai = 27 then some (.float (UInt64.ofNat n), r)
        else none
def decodeListF : Nat → Nat → Bytes → Option (List Node × Bytes)
  | 0, _, _ => none
  | _ + 1, 0, bs => some ([], bs)
  | fuel + 1, k + 1, bs =>
    match decodeF fuel bs with
    | none => none
    | some (x, r) =>
      match decodeListF fuel k r with
      | none => none
      | some (xs, r') => some (x :: xs, r')
def decodeMapF : Nat → Nat → Bytes → Option (List (Bytes × Node) × Bytes)
  | 0, _, _ => none
  | _ + 1, 0, bs => some ([], bs)
  | fuel + 1, k + 1, bs =>
    match readHead bs with
    | some (3, _, len, r) =>
      if r.length < len then none
      else
        match decodeF fuel (r.drop len) with
        | none => none
        | some (v, r2) =>
          match decodeMapF fuel k r2 with
          | none => none
          | some (kvs, r') => some ((r.take len, v) :: kvs, r')
    | _ => none
end

/-- decode a complete item: no trailing bytes -/
def decode (b : Bytes) : Option Node :=
  match decodeF (3 * b.length) b with
  | some (n, []) => some n
  | _ => none

/-- DAG-CBOR map key order: shorter keys first, equal lengths bytewise -/
def keyLt (a b : Bytes) : Bool :=
  a.length < b.length || (a.length == b.length && decide (a.map UInt8.toNat < b.map UInt8.toNat))

def keysStrictlySorted : List (Bytes × Node) → Bool
  | [] => true
  | [_] => true
  | (k1, _) :: (k2, v2) :: r => keyLt k1 k2 && keysStrictlySorted ((k2, v2) :: r)

mutual
/-- every map of the tree lists its keys in canonical order (no duplicates) -/
def keysSorted : Node → Bool
  | .list xs => keysSortedList xs
  | .map kvs => keysStrictlySorted kvs && keysSortedMap kvs
  | _ => true
def keysSortedList : List Node → Bool
  | [] => true
  | x :: xs => keysSorted x && keysSortedList xs
def keysSortedMap : List (Bytes × Node) → Bool
  | [] => true
  | (_, v) :: kvs => keysSorted v && keysSortedMap kvs
end

/-- the bytes are accepted as a sealed item: they decode, and re-encoding the decoded tree canonically
    gives the received bytes back -/
def accept (b : Bytes) : Option Node :=
  match decode b with
  | some n => if keysSorted n && encode n == b then some n else none
  | none => none

end Ucan.Cbor
