import Ucan.Model.Node
import Ucan.Model.Utf8
/-!
Model of `pkg/policy/selector/selector.go`: `resolve` and `resolveSliceIndices`.

`Seg` mirrors Go's `segment` struct field by field (flags, not an enum), and `resolve` mirrors the
`for _, seg := range sel { switch { ... } }` loop, one `if` per `case` in source order, one `match`
per inner kind switch. `cur == nil` ("no value", produced by a failing optional segment) is `none`.
-/
namespace Ucan.Selector

inductive Err where
  | resolution
  deriving DecidableEq, Repr

/-- Go `math.MinInt` / `math.MaxInt` (64-bit): the sentinels the parser stores for open slice bounds -/
def minInt : Int := -9223372036854775808
def maxInt : Int := 9223372036854775807

/-- Go's `segment` -/
structure Seg where
  str : Bytes
  identity : Bool := false
  optional : Bool := false
  iterator : Bool := false
  slice : Option (Int × Int) := none   -- Go: `[]int64`, "either 0-length or 2-length"
  isField : Bool := false
  field : Bytes := []
  index : Int := 0
  deriving Repr

/-- first `switch` of `resolveSliceIndices`: the start bound before clamping -/
def rawStart (s0 length : Int) : Int :=
  if s0 = minInt then 0
  else if s0 < 0 then (if -s0 > length then 0 else length + s0)
  else s0

/-- second `switch`: the end bound before clamping -/
def rawEnd (s1 length : Int) : Int :=
  if s1 = maxInt then length
  else if s1 < 0 then (if -s1 > length then 0 else length + s1)
  else s1

/-- "clamp out of bound": `if x < 0 { x = 0 }; if x > length { x = length }` -/
def clamp (x length : Int) : Int :=
  let x := if x < 0 then 0 else x
  if x > length then length else x

/-- `resolveSliceIndices(slice, length)`, statement by statement -/
def sliceIndices (s0 s1 length : Int) : Int × Int :=
  let start := rawStart s0 length
  let end_ := rawEnd s1 length
  -- backward iteration is not allowed, shortcut to an empty result
  if start ≥ end_ then (0, 0)
  else (clamp start length, clamp end_ length)

/-- `xs[start:end]` for indices already known to be in range (Go would panic otherwise; see
    `C12_slice_in_range`) -/
def extract {α} (xs : List α) (start end_ : Int) : List α :=
  (xs.drop start.toNat).take (end_ - start).toNat

/-- the `Index()` case: `if idx < 0 { idx = len + idx }`, the bounds test, then the lookup
    (`none` = "index out of bounds") -/
def goIndex {α} (xs : List α) (i : Int) : Option α :=
  if (if i < 0 then (xs.length : Int) + i else i) < 0 ∨ (if i < 0 then (xs.length : Int) + i else i) ≥ xs.length
  then none else xs[(if i < 0 then (xs.length : Int) + i else i).toNat]?

/-- what an OPTIONAL iterator may do on a value it cannot iterate (C12 does not say): fail, "no value", or the empty list -/
inductive IterOut where
  | err | none | empty
  deriving DecidableEq, Repr

/-- the points C12 leaves open and the code decides (`Lat.code` = what the code does today; every C12 theorem is proved for
every value of this structure, and the comparison with the implementation accepts every reading):
* `slice`: an optional slice on a value that cannot be sliced is "no value" (`true`) or an error (`false`, today);
* `iterNull`: an optional iterator on null / on "no value" (today: the empty list);
* `iterScalar`: an optional iterator on any other value that is neither a list nor a map (today: an error). -/
structure Lat where
  slice : Bool := false
  iterNull : IterOut := .empty
  iterScalar : IterOut := .err
  deriving DecidableEq, Repr

def Lat.code : Lat := {}

/-- what a failing segment does: error unless optional, in which case the walk goes on with "no value".
`lenient` is the one point the property (C12) leaves open and the code decides: an OPTIONAL SLICE segment applied to a value
that cannot be sliced. The code as it stands answers with an error (`lenient = false`, what `select` uses); answering with
"no value", as for an optional field or index, is equally within C12 (`lenient = true`). Every C12 theorem holds for both. -/
def resolve (lenient : Lat) : List Seg → Option Node → Except Err (Option Node)
  | [], cur => .ok cur
  | seg :: rest, cur =>
    if seg.identity then resolve lenient rest cur
    else if seg.iterator then
      match cur with
      | none | some .null =>
        if seg.optional then
          (match lenient.iterNull with
           | .err => .error .resolution
           | .none => resolve lenient rest none
           | .empty => resolve lenient rest (some (.list [])))
        else .error .resolution
      | some (.list _) => resolve lenient rest cur
      | some (.map kvs) => resolve lenient rest (some (.list (Node.values kvs)))
      | _ =>
        if seg.optional then
          (match lenient.iterScalar with
           | .err => .error .resolution
           | .none => resolve lenient rest none
           | .empty => resolve lenient rest (some (.list [])))
        else .error .resolution
    else if seg.isField then
      match cur with
      | some (.map kvs) =>
        match Node.lookup seg.field kvs with
        | some n => resolve lenient rest (some n)
        | none => if seg.optional then resolve lenient rest none else .error .resolution
      | _ => if seg.optional then resolve lenient rest none else .error .resolution
    else match seg.slice with
      | some (s0, s1) =>
        match cur with
        | none => if seg.optional then resolve lenient rest none else .error .resolution
        | some (.list xs) =>
          let (a, b) := sliceIndices s0 s1 xs.length
          resolve lenient rest (some (.list (extract xs a b)))
        | some (.bytes bs) =>
          let (a, b) := sliceIndices s0 s1 bs.length
          resolve lenient rest (some (.bytes (extract bs a b)))
        | some (.str s) =>
          let runes := Utf8.decode s
          let (a, b) := sliceIndices s0 s1 runes.length
          resolve lenient rest (some (.str (Utf8.encode (extract runes a b))))
        | _ => if lenient.slice && seg.optional then resolve lenient rest none else .error .resolution
      | none => -- default: Index()
        match cur with
        | some (.list xs) =>
          match goIndex xs seg.index with
          | some n => resolve lenient rest (some n)
          | none => if seg.optional then resolve lenient rest none else .error .resolution
        | some (.bytes bs) =>
          match goIndex bs seg.index with
          | some b => resolve lenient rest (some (.int b.toNat))
          | none => if seg.optional then resolve lenient rest none else .error .resolution
        | _ => if seg.optional then resolve lenient rest none else .error .resolution

/-- `Selector.Select(subject)` -/
def select (sel : List Seg) (subject : Node) : Except Err (Option Node) := resolve Lat.code sel (some subject)

/-- `Select` under either reading of a failing optional slice -/
def selectL (lenient : Lat) (sel : List Seg) (subject : Node) : Except Err (Option Node) := resolve lenient sel (some subject)

end Ucan.Selector
