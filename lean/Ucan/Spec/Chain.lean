import Ucan.Model.Chain
import Ucan.Spec.Policy
import Ucan.Spec.Command
/-!
Declarative reading of properties C01–C05: what a rule-conforming proof chain is.
`ds` is the list of delegations in proof order: `ds[0]` was issued to the invoker, the last one is the root.
-/
namespace Ucan.Chain
open Ucan.Policy

variable {D C X : Type}

/-- C01: principal alignment -/
structure PrincipalSpec (inv : Inv D C X) (ds : List (Dlg D)) : Prop where
  nonempty : ds ≠ []
  first_to_invoker : ∀ d, ds.head? = some d → d.aud = inv.iss
  linked : ∀ i (h : i + 1 < ds.length), ds[i].iss = ds[i + 1].aud
  root : ∀ d, ds.getLast? = some d → d.sub = some d.iss
  subject : ∀ d ∈ ds, d.sub = some inv.sub

/-- C02: commands only narrow towards the invocation -/
structure CommandSpec (inv : Inv D C X) (ds : List (Dlg D)) : Prop where
  first_covers_invocation : ∀ d, ds.head? = some d → Command.covers d.cmd inv.cmd = true
  narrowing : ∀ i (h : i + 1 < ds.length), Command.covers ds[i + 1].cmd ds[i].cmd = true

/-- C04: validity window, stated directly on the bounds -/
def InsideWindow (nbf exp : Option Int) (t : Int) : Prop :=
  (∀ b, nbf = some b → b ≤ t) ∧ (∀ e, exp = some e → t ≤ e)

def TimeSpec (now : Int) (inv : Inv D C X) (ds : List (Dlg D)) : Prop :=
  InsideWindow none inv.exp now ∧ ∀ d ∈ ds, InsideWindow d.nbf d.exp now

/-- C03: every statement of every link passes on the arguments -/
def PolicySpec (ds : List (Dlg D)) (args : Node) : Prop :=
  ∀ d ∈ ds, ∀ s ∈ d.pol, (matchStmt s args).passes = true

end Ucan.Chain
