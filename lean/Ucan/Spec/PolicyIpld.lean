import Ucan.Model.PolicyIpld
/-!
Declarative side of C14 for policies: "deep-equal up to selector normalisation".
`normPolicy` rewrites, in a policy node, every selector string to what the parser prints for it and
leaves everything else untouched.
-/
namespace Ucan.Policy
open Ucan.Selector

/-- the text a selector string is normalised to: what `Selector.String` prints after `Parse` -/
def reprint (isLetter : Nat → Bool) (s : Bytes) : Bytes :=
  match parse isLetter s with
  | .ok sel => print sel
  | .error _ => s

mutual
def normStmt (isLetter : Nat → Bool) : Node → Node
  | .list [.str op, a] =>
    if op = Facts.kindNot then .list [.str op, normStmt isLetter a]
    else if op = Facts.kindAnd ∨ op = Facts.kindOr then
      match a with
      | .list xs => .list [.str op, .list (normStmts isLetter xs)]
      | _ => .list [.str op, a]
    else .list [.str op, a]
  | .list [.str op, .str sel, b] =>
    if (opOfKind op).isSome ∨ op = Facts.kindLike then .list [.str op, .str (reprint isLetter sel), b]
    else if op = Facts.kindAll ∨ op = Facts.kindAny then
      .list [.str op, .str (reprint isLetter sel), normStmt isLetter b]
    else .list [.str op, .str sel, b]
  | n => n
def normStmts (isLetter : Nat → Bool) : List Node → List Node
  | [] => []
  | x :: xs => normStmt isLetter x :: normStmts isLetter xs
end

def normPolicy (isLetter : Nat → Bool) : Node → Node
  | .list xs => .list (normStmts isLetter xs)
  | n => n

/-- relation "segment `sg` was classified from token `tok`": its text is the token, except that an
    identity segment is stored as "." whatever question marks followed the dot -/
def SegOfTok (tok : Bytes) (sg : Seg) : Prop :=
  sg.str = tok ∨ (sg.identity = true ∧ sg.str = [cDot] ∧ trimQM tok = [cDot])

inductive Zip {α β} (R : α → β → Prop) : List α → List β → Prop
  | nil : Zip R [] []
  | cons {a b as bs} : R a b → Zip R as bs → Zip R (a :: as) (b :: bs)

end Ucan.Policy
