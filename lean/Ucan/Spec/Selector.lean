import Ucan.Model.Selector
/-!
Declarative reading of property C12: a selector is a sequence of segments, each of exactly one kind,
applied one after the other; index and slice follow Python's rules.
-/
namespace Ucan.Selector

inductive SegKind where
  | identity
  | iterator
  | field (name : Bytes)
  | slice (lo hi : Option Int)   -- `none` = open bound
  | index (i : Int)
  deriving Repr

/-- which kind a Go `segment` has, by the order of the `switch` in `resolve` -/
def classify (s : Seg) : SegKind :=
  if s.identity then .identity
  else if s.iterator then .iterator
  else if s.isField then .field s.field
  else match s.slice with
    | some (s0, s1) => .slice (if s0 = minInt then none else some s0) (if s1 = maxInt then none else some s1)
    | none => .index s.index

/-- Python `xs[i]`: negative indexes count from the end; out of range = no element -/
def pyIndex {α} (xs : List α) (i : Int) : Option α :=
  if 0 ≤ i then xs[i.toNat]?
  else if -i ≤ xs.length then xs[(xs.length + i).toNat]?
  else none

/-- Python `slice(lo, hi).indices(len)` for step 1 -/
def pyBound (b : Option Int) (dflt : Int) (len : Int) : Int :=
  match b with
  | none => dflt
  | some v => if v < 0 then max (v + len) 0 else min v len

/-- Python `xs[lo:hi]` -/
def pySlice {α} (xs : List α) (lo hi : Option Int) : List α :=
  let a := pyBound lo 0 xs.length
  let b := pyBound hi xs.length xs.length
  (xs.drop a.toNat).take (b - a).toNat

def failOpt (optional : Bool) : Except Err (Option Node) :=
  if optional then .ok none else .error .resolution

/-- one segment, by kind, as the property describes it -/
def stepSpec (lenient : Lat) (k : SegKind) (opt : Bool) (cur : Option Node) : Except Err (Option Node) :=
  match k with
  | .identity => .ok cur
  | .iterator =>
    match cur with
    | some (.map kvs) => .ok (some (.list (Node.values kvs)))   -- a map becomes the list of its values
    | some (.list xs) => .ok (some (.list xs))                   -- a list is left unchanged
    -- an OPTIONAL iterator on something it cannot iterate is left open by C12 (`Lat`): an error, "no value" or the empty list
    | none | some .null =>
      if opt then (match lenient.iterNull with | .err => .error .resolution | .none => .ok none | .empty => .ok (some (.list [])))
      else .error .resolution
    | _ =>
      if opt then (match lenient.iterScalar with | .err => .error .resolution | .none => .ok none | .empty => .ok (some (.list [])))
      else .error .resolution
  | .field name =>
    match cur with
    | some (.map kvs) =>
      match Node.lookup name kvs with
      | some n => .ok (some n)
      | none => failOpt opt
    | _ => failOpt opt
  | .index i =>
    match cur with
    | some (.list xs) =>
      match pyIndex xs i with
      | some n => .ok (some n)
      | none => failOpt opt
    | some (.bytes bs) =>
      match pyIndex bs i with
      | some b => .ok (some (.int b.toNat))
      | none => failOpt opt
    | _ => failOpt opt
  | .slice lo hi =>
    match cur with
    | some (.list xs) => .ok (some (.list (pySlice xs lo hi)))
    | some (.bytes bs) => .ok (some (.bytes (pySlice bs lo hi)))
    | some (.str s) => .ok (some (.str (Utf8.encode (pySlice (Utf8.decode s) lo hi))))   -- by character
    | none => failOpt opt
    -- C12 speaks of failing optional FIELD and INDEX segments ("no value") and of failing non-optional segments (an error); an
    -- optional slice on a value that cannot be sliced is left open: `lenient` says which of the two the implementation does
    | _ => if lenient.slice && opt then .ok none else .error .resolution

/-- resolving a selector = resolving its segments one after the other -/
def resolveSpec (lenient : Lat) (segs : List Seg) (cur : Option Node) : Except Err (Option Node) :=
  segs.foldlM (fun c s => stepSpec lenient (classify s) s.optional c) cur

end Ucan.Selector
