import Ucan.Basic
import Ucan.Model.Command
/-!
Declarative reading of property C15: what a valid command is and what "covers" means.
-/
namespace Ucan.Command

/-- the grammar of the parser: leading slash, no trailing slash except for "/", unchanged by lower-casing -/
def Grammar (lower : Bytes → Bytes) (s : Bytes) : Prop :=
  (∃ r, s = slash :: r) ∧ (s = [slash] ∨ s.getLast? ≠ some slash) ∧ lower s = s

/-- the shape part of the grammar (what `covers` relies on) -/
def Valid (s : Bytes) : Prop :=
  (∃ r, s = slash :: r) ∧ (s = [slash] ∨ s.getLast? ≠ some slash)

/-- C15's meaning of coverage: segment prefix -/
def CoversSpec (c o : Bytes) : Prop := segments c <+: segments o

end Ucan.Command
