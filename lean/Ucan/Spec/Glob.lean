import Ucan.Model.Glob
/-!
Declarative reading of property C13: the glob language.
-/
namespace Ucan.Glob

/-- the language of a token list: `*` stands for any (possibly empty) byte sequence,
    every literal for itself -/
inductive Lang : List Tok → Bytes → Prop
  | nil : Lang [] []
  | lit (b : Byte) {ps s} : Lang ps s → Lang (.lit b :: ps) (b :: s)
  | star (x : Bytes) {ps s} : Lang ps s → Lang (.star :: ps) (x ++ s)

/-- executable form of `Lang` (the obviously-correct exponential recursion), used by the driver and as
    the stepping stone of the proof; `matchSpec_iff_Lang` ties it to `Lang` -/
def matchSpec : List Tok → Bytes → Bool
  | [], s => s.isEmpty
  | .lit a :: ps, c :: s => a == c && matchSpec ps s
  | .lit _ :: _, [] => false
  | .star :: ps, [] => matchSpec ps []
  | .star :: ps, c :: s => matchSpec ps (c :: s) || matchSpec (.star :: ps) s
termination_by ps s => (ps.length + s.length, ps.length)

/-- a pattern "ends in a lone backslash": a complete token sequence followed by one backslash -/
def EndsInLoneBackslash (p : Bytes) : Prop := ∃ q ts, toks q = some ts ∧ p = q ++ [backslash]

end Ucan.Glob
