import Ucan.Model.Policy
import Ucan.Spec.Glob
/-!
Declarative reading of property C11.

* `classical` — the two-valued truth of a statement when every selector it evaluates resolves
  (`resolves`): `and` = all, `or` = some (the empty `or` is true, as the UCAN specification and the
  in-tree examples require), `not` = negation, `all`/`any` = bounded quantifiers over a list,
  `like` = membership in the glob language, comparisons on values of the same kind only.
* `andC` / `orC` — the four-valued conjunction and disjunction as commutative, associative operations
  (what "independent of the order of operands/elements" means for results that are not plain booleans).
* `PermEq` — two statements that differ only by permuting operands of `and`/`or` anywhere in the tree.
-/
namespace Ucan.Policy
open Ucan.Selector

/-- four-valued conjunction: false is decisive, then missing data, then missing optional data -/
def andC : Res → Res → Res
  | .f, _ | _, .f => .f
  | .noData, _ | _, .noData => .noData
  | .optNoData, _ | _, .optNoData => .optNoData
  | .t, .t => .t

/-- four-valued disjunction: true is decisive, then missing data, then missing optional data -/
def orC : Res → Res → Res
  | .t, _ | _, .t => .t
  | .noData, _ | _, .noData => .noData
  | .optNoData, _ | _, .optNoData => .optNoData
  | .f, .f => .f

/-- the statement passes at the top level of a full match -/
def Res.passes : Res → Bool
  | .t | .optNoData => true
  | .f | .noData => false

mutual
/-- every selector evaluated while evaluating the statement yields a value -/
def resolves : Stmt → Node → Bool
  | .cmp _ sel _, n => match select sel n with | .ok (some _) => true | _ => false
  | .like sel _, n => match select sel n with | .ok (some _) => true | _ => false
  | .not s, n => resolves s n
  | .and ss, n => resolvesList ss n
  | .or ss, n => resolvesList ss n
  | .all sel s, n =>
    match select sel n with
    | .ok (some (.list xs)) => xs.all (fun x => resolves s x)
    | .ok (some _) => true
    | _ => false
  | .any sel s, n =>
    match select sel n with
    | .ok (some (.list xs)) => xs.all (fun x => resolves s x)
    | .ok (some _) => true
    | _ => false
def resolvesList : List Stmt → Node → Bool
  | [], _ => true
  | s :: ss, n => resolves s n && resolvesList ss n
end

mutual
/-- classical truth value of a statement -/
def classical : Stmt → Node → Bool
  | .cmp op sel v, n => match select sel n with | .ok (some r) => cmpOp op v r | _ => false
  | .like sel pat, n => match select sel n with | .ok (some (.str s)) => Glob.matchSpec pat s | _ => false
  | .not s, n => !classical s n
  | .and ss, n => classicalAll ss n
  | .or ss, n => ss.isEmpty || classicalAny ss n
  | .all sel s, n =>
    match select sel n with
    | .ok (some (.list xs)) => xs.all (fun x => classical s x)
    | _ => false
  | .any sel s, n =>
    match select sel n with
    | .ok (some (.list xs)) => xs.any (fun x => classical s x)
    | _ => false
def classicalAll : List Stmt → Node → Bool
  | [], _ => true
  | s :: ss, n => classical s n && classicalAll ss n
def classicalAny : List Stmt → Node → Bool
  | [], _ => false
  | s :: ss, n => classical s n || classicalAny ss n
end

mutual
/-- equality of statements up to the order of the operands of `and` / `or`, anywhere in the tree -/
inductive PermEq : Stmt → Stmt → Prop
  | refl (s) : PermEq s s
  | trans {a b c} : PermEq a b → PermEq b c → PermEq a c
  | not {s s'} : PermEq s s' → PermEq (.not s) (.not s')
  | and {ss ss'} : PermEqList ss ss' → PermEq (.and ss) (.and ss')
  | or {ss ss'} : PermEqList ss ss' → PermEq (.or ss) (.or ss')
  | all {s s'} (sel) : PermEq s s' → PermEq (.all sel s) (.all sel s')
  | any {s s'} (sel) : PermEq s s' → PermEq (.any sel s) (.any sel s')
inductive PermEqList : List Stmt → List Stmt → Prop
  | nil : PermEqList [] []
  | cons {s s' ss ss'} : PermEq s s' → PermEqList ss ss' → PermEqList (s :: ss) (s' :: ss')
  | swap (a b ss) : PermEqList (a :: b :: ss) (b :: a :: ss)
  | trans {as bs cs} : PermEqList as bs → PermEqList bs cs → PermEqList as cs
end

/-- two policies whose statements are pairwise `PermEq` -/
inductive PolicyPermEq : List Stmt → List Stmt → Prop
  | nil : PolicyPermEq [] []
  | cons {s s' p q} : PermEq s s' → PolicyPermEq p q → PolicyPermEq (s :: p) (s' :: q)

end Ucan.Policy
