import Ucan.Spec.Selector
/-! Helper lemmas for C12: slice/index arithmetic. -/
namespace Ucan.Selector

theorem sliceIndices_in_range (s0 s1 len : Int) (hlen : 0 ≤ len) :
    0 ≤ (sliceIndices s0 s1 len).1 ∧ (sliceIndices s0 s1 len).1 ≤ (sliceIndices s0 s1 len).2 ∧
      (sliceIndices s0 s1 len).2 ≤ len := by
  unfold sliceIndices
  simp only
  generalize rawStart s0 len = A
  generalize rawEnd s1 len = B
  split
  · simp; omega
  · unfold clamp; simp only; omega

def openLo (s0 : Int) : Option Int := if s0 = minInt then none else some s0
def openHi (s1 : Int) : Option Int := if s1 = maxInt then none else some s1

theorem rawStart_spec (s0 len : Int) (hlen : 0 ≤ len) :
    0 ≤ rawStart s0 len ∧ pyBound (openLo s0) 0 len = min (rawStart s0 len) len := by
  unfold rawStart openLo pyBound
  by_cases h0 : s0 = minInt
  · simp only [h0, if_true]; omega
  · simp only [h0, if_false]; omega

theorem rawEnd_spec (s1 len : Int) (hlen : 0 ≤ len) :
    0 ≤ rawEnd s1 len ∧ pyBound (openHi s1) len len = min (rawEnd s1 len) len := by
  unfold rawEnd openHi pyBound
  by_cases h1 : s1 = maxInt
  · simp only [h1, if_true]; omega
  · simp only [h1, if_false]; omega

/-- Go's bounds versus Python's: either both selections are empty, or the bounds coincide -/
theorem sliceIndices_vs_python (s0 s1 len : Int) (hlen : 0 ≤ len) :
    ((((sliceIndices s0 s1 len).2 - (sliceIndices s0 s1 len).1).toNat = 0 ∧
        (pyBound (openHi s1) len len - pyBound (openLo s0) 0 len).toNat = 0)) ∨
      ((sliceIndices s0 s1 len).1.toNat = (pyBound (openLo s0) 0 len).toNat ∧
        ((sliceIndices s0 s1 len).2 - (sliceIndices s0 s1 len).1).toNat =
          (pyBound (openHi s1) len len - pyBound (openLo s0) 0 len).toNat) := by
  obtain ⟨hA, hA'⟩ := rawStart_spec s0 len hlen
  obtain ⟨hB, hB'⟩ := rawEnd_spec s1 len hlen
  rw [hA', hB']
  unfold sliceIndices
  simp only
  generalize rawStart s0 len = A at *
  generalize rawEnd s1 len = B at *
  split
  · left; simp; omega
  · right; unfold clamp; simp only; omega

/-- Go's bound arithmetic followed by `xs[start:end]` selects what Python's `xs[lo:hi]` selects -/
theorem extract_sliceIndices_eq_pySlice {α} (xs : List α) (s0 s1 : Int) :
    extract xs (sliceIndices s0 s1 xs.length).1 (sliceIndices s0 s1 xs.length).2 =
      pySlice xs (openLo s0) (openHi s1) := by
  have hl : (0 : Int) ≤ xs.length := by omega
  have key := sliceIndices_vs_python s0 s1 xs.length hl
  unfold extract pySlice
  simp only
  rcases key with ⟨h1, h2⟩ | ⟨h1, h2⟩
  · rw [h1, h2]; simp
  · rw [h1, h2]

/-- Go's index adjustment (`idx = len + idx` when negative, then the bounds test) is Python indexing -/
theorem goIndex_eq_pyIndex {α} (xs : List α) (i : Int) : goIndex xs i = pyIndex xs i := by
  unfold goIndex
  unfold pyIndex
  by_cases hi : i < 0
  · have h0 : ¬ (0 ≤ i) := by omega
    simp only [hi, h0, if_true, if_false]
    by_cases h2 : -i ≤ xs.length
    · have : ¬ ((xs.length : Int) + i < 0 ∨ (xs.length : Int) + i ≥ xs.length) := by omega
      simp only [this, h2, if_true, if_false]
    · have : ((xs.length : Int) + i < 0 ∨ (xs.length : Int) + i ≥ xs.length) := by omega
      simp only [this, h2, if_true, if_false]
  · have h0 : 0 ≤ i := by omega
    simp only [hi, h0, if_true, if_false]
    simp only [false_or]
    by_cases h2 : i ≥ xs.length
    · rw [if_pos h2]; symm; apply List.getElem?_eq_none; omega
    · rw [if_neg h2]

end Ucan.Selector
