import Ucan.Spec.Command
/-! Helper lemmas for C15 (strings.Split algebra). -/
namespace Ucan.Command

theorem getLast?_append_ne_nil {α} (l s : List α) (hs : s ≠ []) : (l ++ s).getLast? = s.getLast? := by
  rw [List.getLast?_append]
  cases h : s.getLast? with
  | none => exact absurd (List.getLast?_eq_none_iff.1 h) hs
  | some a => rfl

theorem split_ne_nil (sep : Byte) (s : Bytes) : split sep s ≠ [] := by
  induction s with
  | nil => simp [split]
  | cons b bs ih =>
    simp only [split]; split
    · simp
    · split <;> simp

/-- inverse of `split`: `strings.Join(l, sep)` -/
def unsplit (sep : Byte) : List Bytes → Bytes
  | [] => []
  | [x] => x
  | x :: y :: r => x ++ sep :: unsplit sep (y :: r)

theorem unsplit_cons (sep : Byte) (x : Bytes) (l : List Bytes) (h : l ≠ []) :
    unsplit sep (x :: l) = x ++ sep :: unsplit sep l := by
  cases l with
  | nil => exact absurd rfl h
  | cons y r => rfl

theorem split_cons_sep (sep : Byte) (bs : Bytes) : split sep (sep :: bs) = [] :: split sep bs := by
  simp [split]

theorem split_cons_ne (sep b : Byte) (bs : Bytes) (h : b ≠ sep) :
    ∃ x xs, split sep bs = x :: xs ∧ split sep (b :: bs) = (b :: x) :: xs := by
  cases hs : split sep bs with
  | nil => exact absurd hs (split_ne_nil _ _)
  | cons x xs => exact ⟨x, xs, rfl, by simp [split, h, hs]⟩

theorem unsplit_split (sep : Byte) (s : Bytes) : unsplit sep (split sep s) = s := by
  induction s with
  | nil => simp [split, unsplit]
  | cons b bs ih =>
    by_cases h : b = sep
    · subst h
      rw [split_cons_sep, unsplit_cons _ _ _ (split_ne_nil _ _), ih]; rfl
    · obtain ⟨x, xs, h1, h2⟩ := split_cons_ne sep b bs h
      rw [h2]; rw [h1] at ih
      cases xs with
      | nil => simp [unsplit] at ih ⊢; exact ih
      | cons y r =>
        simp only [unsplit] at ih ⊢
        rw [← ih]; rfl

theorem split_append_sep (sep : Byte) (a b : Bytes) :
    split sep (a ++ sep :: b) = split sep a ++ split sep b := by
  induction a with
  | nil => simp [split]
  | cons c a ih =>
    by_cases h : c = sep
    · subst h; simp [split_cons_sep, ih]
    · obtain ⟨x, xs, h1, h2⟩ := split_cons_ne sep c a h
      obtain ⟨x', xs', h1', h2'⟩ := split_cons_ne sep c (a ++ sep :: b) h
      rw [List.cons_append, h2', h2]
      rw [ih, h1] at h1'
      simp only [List.cons_append, List.cons.injEq] at h1'
      obtain ⟨rfl, rfl⟩ := h1'
      rfl

theorem split_no_sep (sep : Byte) (s : Bytes) : ∀ x ∈ split sep s, sep ∉ x := by
  induction s with
  | nil => simp [split]
  | cons b bs ih =>
    by_cases h : b = sep
    · subst h; rw [split_cons_sep]
      intro x hx
      rcases List.mem_cons.1 hx with rfl | hx
      · simp
      · exact ih x hx
    · obtain ⟨x, xs, h1, h2⟩ := split_cons_ne sep b bs h
      rw [h2]; rw [h1] at ih
      intro y hy
      rcases List.mem_cons.1 hy with rfl | hy
      · intro hm
        rcases List.mem_cons.1 hm with e | hm
        · exact h e.symm
        · exact ih x (List.mem_cons_self) hm
      · exact ih y (List.mem_cons_of_mem _ hy)

theorem split_of_no_sep (sep : Byte) (x : Bytes) (h : sep ∉ x) : split sep x = [x] := by
  induction x with
  | nil => rfl
  | cons b bs ih =>
    have hb : b ≠ sep := fun e => h (e ▸ List.mem_cons_self)
    have hbs : sep ∉ bs := fun m => h (List.mem_cons_of_mem _ m)
    simp [split, hb, ih hbs]

theorem split_unsplit (sep : Byte) (l : List Bytes) (hne : l ≠ []) (h : ∀ x ∈ l, sep ∉ x) :
    split sep (unsplit sep l) = l := by
  induction l with
  | nil => exact absurd rfl hne
  | cons x l ih =>
    cases l with
    | nil => simpa [unsplit] using split_of_no_sep sep x (h x List.mem_cons_self)
    | cons y r =>
      rw [unsplit_cons _ _ _ (by simp), split_append_sep,
        ih (by simp) (fun z hz => h z (List.mem_cons_of_mem _ hz)),
        split_of_no_sep sep x (h x List.mem_cons_self)]
      rfl

theorem unsplit_append (sep : Byte) (l m : List Bytes) (hl : l ≠ []) (hm : m ≠ []) :
    unsplit sep (l ++ m) = unsplit sep l ++ sep :: unsplit sep m := by
  induction l with
  | nil => exact absurd rfl hl
  | cons x l ih =>
    cases l with
    | nil => simpa [unsplit] using unsplit_cons sep x m hm
    | cons z l =>
      have h1 : unsplit sep (x :: z :: l ++ m) = x ++ sep :: unsplit sep (z :: l ++ m) :=
        unsplit_cons sep x (z :: l ++ m) (by simp)
      rw [h1, ih (by simp), unsplit_cons sep x (z :: l) (by simp)]
      simp

theorem split_injective (sep : Byte) {a b : Bytes} (h : split sep a = split sep b) : a = b := by
  rw [← unsplit_split sep a, ← unsplit_split sep b, h]

/-- a string with a leading separator splits into an empty piece followed by the rest -/
theorem split_slash_cons (r : Bytes) : split slash (slash :: r) = [] :: split slash r :=
  split_cons_sep _ _

theorem segments_slash_cons (r : Bytes) (h : r ≠ []) : segments (slash :: r) = split slash r := by
  unfold segments
  rw [if_neg (by simpa using h), split_slash_cons]; rfl

theorem segments_top : segments [slash] = [] := by simp [segments]

theorem segments_ne_nil_of_ne_top (r : Bytes) (h : r ≠ []) : segments (slash :: r) ≠ [] := by
  rw [segments_slash_cons r h]; exact split_ne_nil _ _

end Ucan.Command
