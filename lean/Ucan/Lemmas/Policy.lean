import Ucan.Spec.Policy
/-! Helper lemmas for C11: the running-result loops are folds of commutative, associative operations. -/
namespace Ucan.Policy

theorem andC_comm (a b : Res) : andC a b = andC b a := by cases a <;> cases b <;> rfl
theorem andC_assoc (a b c : Res) : andC (andC a b) c = andC a (andC b c) := by
  cases a <;> cases b <;> cases c <;> rfl
theorem orC_comm (a b : Res) : orC a b = orC b a := by cases a <;> cases b <;> rfl
theorem orC_assoc (a b c : Res) : orC (orC a b) c = orC a (orC b c) := by
  cases a <;> cases b <;> cases c <;> rfl

theorem foldl_andC_f (rs : List Res) : rs.foldl andC .f = .f := by
  induction rs with
  | nil => rfl
  | cons r rs ih => simp only [List.foldl_cons]; cases r <;> exact ih

theorem foldl_orC_t (rs : List Res) : rs.foldl orC .t = .t := by
  induction rs with
  | nil => rfl
  | cons r rs ih => simp only [List.foldl_cons]; cases r <;> exact ih

/-- the Go loop of `and`/`all` (early exit, running result) is the fold of `andC` -/
theorem andLoop_eq_foldl (acc : Res) (rs : List Res) (h : acc ≠ .f) :
    andLoop acc rs = rs.foldl andC acc := by
  induction rs generalizing acc with
  | nil => rfl
  | cons r rs ih =>
    cases r with
    | t => simp only [andLoop, List.foldl_cons]; rw [ih acc h]; cases acc <;> first | rfl | exact absurd rfl h
    | f =>
      simp only [andLoop, List.foldl_cons]
      have : andC acc .f = .f := by cases acc <;> rfl
      rw [this, foldl_andC_f]
    | noData =>
      simp only [andLoop, List.foldl_cons]
      have : andC acc .noData = .noData := by cases acc <;> first | rfl | exact absurd rfl h
      rw [this, ih _ (by decide)]
    | optNoData =>
      simp only [andLoop, List.foldl_cons]
      cases acc with
      | f => exact absurd rfl h
      | t => simp only [if_true]; rw [ih _ (by decide)]; rfl
      | noData => rw [if_neg (by decide), ih _ (by decide)]; rfl
      | optNoData => rw [if_neg (by decide), ih _ (by decide)]; rfl

theorem orLoop_eq_foldl (acc : Res) (rs : List Res) (h : acc ≠ .t) :
    orLoop acc rs = rs.foldl orC acc := by
  induction rs generalizing acc with
  | nil => rfl
  | cons r rs ih =>
    cases r with
    | f => simp only [orLoop, List.foldl_cons]; rw [ih acc h]; cases acc <;> first | rfl | exact absurd rfl h
    | t =>
      simp only [orLoop, List.foldl_cons]
      have : orC acc .t = .t := by cases acc <;> rfl
      rw [this, foldl_orC_t]
    | noData =>
      simp only [orLoop, List.foldl_cons]
      have : orC acc .noData = .noData := by cases acc <;> first | rfl | exact absurd rfl h
      rw [this, ih _ (by decide)]
    | optNoData =>
      simp only [orLoop, List.foldl_cons]
      cases acc with
      | t => exact absurd rfl h
      | f => simp only [if_true]; rw [ih _ (by decide)]; rfl
      | noData => rw [if_neg (by decide), ih _ (by decide)]; rfl
      | optNoData => rw [if_neg (by decide), ih _ (by decide)]; rfl

theorem foldl_andC_init (a b : Res) (rs : List Res) : rs.foldl andC (andC a b) = andC a (rs.foldl andC b) := by
  induction rs generalizing b with
  | nil => rfl
  | cons r rs ih => simp only [List.foldl_cons]; rw [andC_assoc, ih]

theorem foldl_orC_init (a b : Res) (rs : List Res) : rs.foldl orC (orC a b) = orC a (rs.foldl orC b) := by
  induction rs generalizing b with
  | nil => rfl
  | cons r rs ih => simp only [List.foldl_cons]; rw [orC_assoc, ih]

theorem andLoop_cons (r : Res) (rs : List Res) : andLoop .t (r :: rs) = andC r (andLoop .t rs) := by
  rw [andLoop_eq_foldl _ _ (by decide), andLoop_eq_foldl _ _ (by decide), List.foldl_cons]
  have : andC .t r = andC r .t := andC_comm _ _
  rw [this, foldl_andC_init]

theorem orLoop_cons (r : Res) (rs : List Res) : orLoop .f (r :: rs) = orC r (orLoop .f rs) := by
  rw [orLoop_eq_foldl _ _ (by decide), orLoop_eq_foldl _ _ (by decide), List.foldl_cons]
  have : orC .f r = orC r .f := orC_comm _ _
  rw [this, foldl_orC_init]

theorem andLoop_perm {rs rs' : List Res} (p : rs.Perm rs') : andLoop .t rs = andLoop .t rs' := by
  rw [andLoop_eq_foldl _ _ (by decide), andLoop_eq_foldl _ _ (by decide)]
  apply List.Perm.foldl_eq' p
  intro x _ y _ z
  rw [andC_assoc, andC_assoc, andC_comm x y]

theorem orLoop_perm {rs rs' : List Res} (p : rs.Perm rs') : orLoop .f rs = orLoop .f rs' := by
  rw [orLoop_eq_foldl _ _ (by decide), orLoop_eq_foldl _ _ (by decide)]
  apply List.Perm.foldl_eq' p
  intro x _ y _ z
  rw [orC_assoc, orC_assoc, orC_comm x y]

theorem andLoop_append (rs rs' : List Res) : andLoop .t (rs ++ rs') = andC (andLoop .t rs) (andLoop .t rs') := by
  induction rs with
  | nil => simp only [List.nil_append, andLoop]; cases andLoop .t rs' <;> rfl
  | cons r rs ih => rw [List.cons_append, andLoop_cons, andLoop_cons, ih, andC_assoc]

/-- on plain booleans the loops are `all` / `any` -/
theorem andLoop_bools (bs : List Bool) : andLoop .t (bs.map Res.ofBool) = Res.ofBool (bs.all id) := by
  induction bs with
  | nil => rfl
  | cons b bs ih =>
    rw [List.map_cons, andLoop_cons, ih]
    cases b <;> cases h : bs.all id <;> simp [Res.ofBool, andC, h]

theorem orLoop_bools (bs : List Bool) : orLoop .f (bs.map Res.ofBool) = Res.ofBool (bs.any id) := by
  induction bs with
  | nil => rfl
  | cons b bs ih =>
    rw [List.map_cons, orLoop_cons, ih]
    cases b <;> cases h : bs.any id <;> simp [Res.ofBool, orC, h]

theorem matchList_eq_map (ss : List Stmt) (n : Node) : matchList ss n = ss.map (fun s => matchStmt s n) := by
  induction ss with
  | nil => rfl
  | cons s ss ih => simp [matchList, ih]

end Ucan.Policy
