import Ucan.Model.Cbor
/-! The lenient DAG-CBOR decoder reads an item from a PREFIX of its input and never looks further: if it succeeds on
`bs` it succeeds with the same item on `bs ++ x` (for any fuel at least as large), leaving `x` untouched. Consequence
(`decode_proper_prefix_none`): no proper prefix of a complete item decodes as a complete item — a truncated token or
CBOR container is always an error (used by C18). -/
namespace Ucan.Cbor

theorem take_app {α} (n : Nat) (a b : List α) (h : n ≤ a.length) : (a ++ b).take n = a.take n :=
  List.take_append_of_le_length h

theorem drop_app {α} (n : Nat) (a b : List α) (h : n ≤ a.length) : (a ++ b).drop n = a.drop n ++ b :=
  List.drop_append_of_le_length h

theorem readHead_ext (bs r x : Bytes) (m ai a : Nat) (h : readHead bs = some (m, ai, a, r)) :
    readHead (bs ++ x) = some (m, ai, a, r ++ x) := by
  unfold readHead at h ⊢
  cases bs with
  | nil => cases h
  | cons b t =>
    simp only [List.cons_append] at h ⊢
    by_cases h1 : b.toNat % 32 < 24
    · rw [if_pos h1] at h ⊢; cases h; rfl
    · rw [if_neg h1] at h ⊢
      generalize (if b.toNat % 32 = 24 then 1 else if b.toNat % 32 = 25 then 2 else if b.toNat % 32 = 26 then 4
        else if b.toNat % 32 = 27 then 8 else 0) = w at h ⊢
      by_cases h2 : w = 0
      · rw [if_pos h2] at h; cases h
      · rw [if_neg h2] at h ⊢
        by_cases h3 : t.length < w
        · rw [if_pos h3] at h; cases h
        · rw [if_neg h3] at h
          have h3' : ¬ (t ++ x).length < w := by simp only [List.length_append]; omega
          rw [if_neg h3']
          cases h
          rw [take_app w t x (by omega), drop_app w t x (by omega)]

/-- one level of `decodeF`, given the statement for the list and map loops it calls -/
theorem decodeF_ext_step (f g : Nat)
    (ihL : ∀ k bs xs r x, decodeListF f k bs = some (xs, r) → decodeListF g k (bs ++ x) = some (xs, r ++ x))
    (ihM : ∀ k bs kvs r x, decodeMapF f k bs = some (kvs, r) → decodeMapF g k (bs ++ x) = some (kvs, r ++ x))
    (bs : Bytes) (n : Node) (r x : Bytes) (h : decodeF (f + 1) bs = some (n, r)) :
    decodeF (g + 1) (bs ++ x) = some (n, r ++ x) := by
  unfold decodeF at h ⊢
  cases hh : readHead bs with
  | none => rw [hh] at h; cases h
  | some q =>
    obtain ⟨m, ai, a, r1⟩ := q
    rw [hh] at h
    rw [readHead_ext _ _ x _ _ _ hh]
    simp only at h ⊢
    by_cases m0 : m = 0
    · rw [if_pos m0] at h ⊢; cases h; rfl
    rw [if_neg m0] at h ⊢
    by_cases m1 : m = 1
    · rw [if_pos m1] at h ⊢
      by_cases hb : a ≥ 2 ^ 63
      · rw [if_pos hb] at h; cases h
      · rw [if_neg hb] at h ⊢; cases h; rfl
    rw [if_neg m1] at h ⊢
    by_cases m2 : m = 2
    · rw [if_pos m2] at h ⊢
      by_cases hb : r1.length < a
      · rw [if_pos hb] at h; cases h
      · rw [if_neg hb] at h
        have hb' : ¬ (r1 ++ x).length < a := by simp only [List.length_append]; omega
        rw [if_neg hb']; cases h
        rw [take_app a r1 x (by omega), drop_app a r1 x (by omega)]
    rw [if_neg m2] at h ⊢
    by_cases m3 : m = 3
    · rw [if_pos m3] at h ⊢
      by_cases hb : r1.length < a
      · rw [if_pos hb] at h; cases h
      · rw [if_neg hb] at h
        have hb' : ¬ (r1 ++ x).length < a := by simp only [List.length_append]; omega
        rw [if_neg hb']; cases h
        rw [take_app a r1 x (by omega), drop_app a r1 x (by omega)]
    rw [if_neg m3] at h ⊢
    by_cases m4 : m = 4
    · rw [if_pos m4] at h ⊢
      cases hl : decodeListF f a r1 with
      | none => rw [hl] at h; cases h
      | some p =>
        obtain ⟨xs, r'⟩ := p
        rw [hl] at h; cases h
        rw [ihL _ _ _ _ x hl]
    rw [if_neg m4] at h ⊢
    by_cases m5 : m = 5
    · rw [if_pos m5] at h ⊢
      cases hl : decodeMapF f a r1 with
      | none => rw [hl] at h; cases h
      | some p =>
        obtain ⟨kvs, r'⟩ := p
        rw [hl] at h; cases h
        rw [ihM _ _ _ _ x hl]
    rw [if_neg m5] at h ⊢
    by_cases m6 : m = 6
    · rw [if_pos m6] at h ⊢
      by_cases h42 : a ≠ 42
      · rw [if_pos h42] at h; cases h
      · rw [if_neg h42] at h ⊢
        split at h
        · rename_i ai' len r2 hh2
          rw [readHead_ext _ _ x _ _ _ hh2]
          simp only
          by_cases hb : r2.length < len
          · rw [if_pos hb] at h; cases h
          · rw [if_neg hb] at h
            have hb' : ¬ (r2 ++ x).length < len := by simp only [List.length_append]; omega
            rw [if_neg hb', take_app len r2 x (by omega), drop_app len r2 x (by omega)]
            split at h
            · rename_i c hc3
              by_cases hv : cidValid c = true
              · rw [if_pos hv] at h ⊢; cases h; rfl
              · rw [if_neg hv] at h; cases h
            · cases h
        · cases h
    rw [if_neg m6] at h ⊢
    by_cases a20 : ai = 20
    · rw [if_pos a20] at h ⊢; cases h; rfl
    rw [if_neg a20] at h ⊢
    by_cases a21 : ai = 21
    · rw [if_pos a21] at h ⊢; cases h; rfl
    rw [if_neg a21] at h ⊢
    by_cases a22 : ai = 22
    · rw [if_pos a22] at h ⊢; cases h; rfl
    rw [if_neg a22] at h ⊢
    by_cases a27 : ai = 27
    · rw [if_pos a27] at h ⊢; cases h; rfl
    rw [if_neg a27] at h; cases h

theorem decodeListF_ext_step (f g : Nat)
    (ihA : ∀ bs n r x, decodeF f bs = some (n, r) → decodeF g (bs ++ x) = some (n, r ++ x))
    (ihL : ∀ k bs xs r x, decodeListF f k bs = some (xs, r) → decodeListF g k (bs ++ x) = some (xs, r ++ x))
    (k : Nat) (bs : Bytes) (xs : List Node) (r x : Bytes) (h : decodeListF (f + 1) k bs = some (xs, r)) :
    decodeListF (g + 1) k (bs ++ x) = some (xs, r ++ x) := by
  cases k with
  | zero => unfold decodeListF at h ⊢; cases h; rfl
  | succ k =>
    unfold decodeListF at h ⊢
    cases hx : decodeF f bs with
    | none => rw [hx] at h; cases h
    | some p =>
      obtain ⟨y, r1⟩ := p
      rw [hx] at h; simp only at h
      rw [ihA _ _ _ x hx]; simp only
      cases hl : decodeListF f k r1 with
      | none => rw [hl] at h; cases h
      | some p2 =>
        obtain ⟨xs', r2⟩ := p2
        rw [hl] at h; cases h
        rw [ihL _ _ _ _ x hl]

theorem decodeMapF_ext_step (f g : Nat)
    (ihA : ∀ bs n r x, decodeF f bs = some (n, r) → decodeF g (bs ++ x) = some (n, r ++ x))
    (ihM : ∀ k bs kvs r x, decodeMapF f k bs = some (kvs, r) → decodeMapF g k (bs ++ x) = some (kvs, r ++ x))
    (k : Nat) (bs : Bytes) (kvs : List (Bytes × Node)) (r x : Bytes) (h : decodeMapF (f + 1) k bs = some (kvs, r)) :
    decodeMapF (g + 1) k (bs ++ x) = some (kvs, r ++ x) := by
  cases k with
  | zero => unfold decodeMapF at h ⊢; cases h; rfl
  | succ k =>
    unfold decodeMapF at h ⊢
    split at h
    · rename_i ai len r1 hh
      rw [readHead_ext _ _ x _ _ _ hh]
      simp only
      by_cases hb : r1.length < len
      · rw [if_pos hb] at h; cases h
      · rw [if_neg hb] at h
        have hb' : ¬ (r1 ++ x).length < len := by simp only [List.length_append]; omega
        rw [if_neg hb', take_app len r1 x (by omega), drop_app len r1 x (by omega)]
        cases hv : decodeF f (r1.drop len) with
        | none => rw [hv] at h; cases h
        | some p =>
          obtain ⟨v, r2⟩ := p
          rw [hv] at h; simp only at h
          rw [ihA _ _ _ x hv]; simp only
          cases hm : decodeMapF f k r2 with
          | none => rw [hm] at h; cases h
          | some p2 =>
            obtain ⟨kvs', r3⟩ := p2
            rw [hm] at h; cases h
            rw [ihM _ _ _ _ x hm]
    · cases h

/-- reading an item does not depend on what follows it, nor on fuel beyond what sufficed -/
theorem decode_ext (f : Nat) : ∀ g, f ≤ g →
    (∀ bs n r x, decodeF f bs = some (n, r) → decodeF g (bs ++ x) = some (n, r ++ x)) ∧
    (∀ k bs xs r x, decodeListF f k bs = some (xs, r) → decodeListF g k (bs ++ x) = some (xs, r ++ x)) ∧
    (∀ k bs kvs r x, decodeMapF f k bs = some (kvs, r) → decodeMapF g k (bs ++ x) = some (kvs, r ++ x)) := by
  induction f with
  | zero =>
    intro g _
    refine ⟨?_, ?_, ?_⟩
    · intro bs n r x h; unfold decodeF at h; cases h
    · intro k bs xs r x h; unfold decodeListF at h; cases h
    · intro k bs kvs r x h; unfold decodeMapF at h; cases h
  | succ f ih =>
    intro g hg
    cases g with
    | zero => omega
    | succ g =>
      obtain ⟨ihA, ihL, ihM⟩ := ih g (by omega)
      exact ⟨decodeF_ext_step f g ihL ihM, decodeListF_ext_step f g ihA ihL, decodeMapF_ext_step f g ihA ihM⟩

/-- no proper prefix of a complete item is a complete item: a truncated DAG-CBOR item never decodes -/
theorem decode_proper_prefix_none (b p : Bytes) (n : Node) (h : decode b = some n) (hp : p <+: b) (hne : p ≠ b) :
    decode p = none := by
  obtain ⟨x, rfl⟩ := hp
  cases hd : decode p with
  | none => rfl
  | some m =>
    exfalso
    unfold decode at h hd
    -- the prefix decodes completely …
    cases hq : decodeF (3 * p.length) p with
    | none => rw [hq] at hd; cases hd
    | some q =>
      obtain ⟨m', rp⟩ := q
      rw [hq] at hd
      cases rp with
      | cons c t => cases hd
      | nil =>
        -- … so the whole input decodes to the same item and leaves `x` over
        have hext := (decode_ext (3 * p.length) (3 * (p ++ x).length) (by simp only [List.length_append]; omega)).1 p m' [] x hq
        rw [hext] at h
        cases x with
        | nil => exact hne (by simp)
        | cons c t => simp at h

end Ucan.Cbor
