import Ucan.Model.SelectorParse
/-!
Lemmas for `C14_print_reparse`: the text printed for a parsed selector parses to the same selector.

The tokenizer is characterised by `bodyScan`: the quote state after scanning the body of a token (the bytes
after its leading `.` or `[`) provided no split character occurs outside quotes. A list of well-formed tokens
(`tokOK`) concatenated and tokenized again yields exactly those tokens (`tokenize_flatten`), and every token
that `tokenize` produces from a text starting with `.` and ending outside quotes is well formed
(`tokenize_tokOK`).
-/
set_option linter.unusedSimpArgs false
namespace Ucan.Selector

def isSplit (c : Byte) : Bool := c = cDot || c = cLBr

/-- scan the body of a token from quote state (prev, inQ): `none` when a split character occurs outside
    quotes (the tokenizer would start a new token there) -/
def bodyScan : Byte → Bool → Bytes → Option (Byte × Bool)
  | prev, inQ, [] => some (prev, inQ)
  | prev, inQ, c :: r =>
    if c = cQuote ∧ prev ≠ cBackslash then bodyScan c (!inQ) r
    else if inQ then bodyScan c inQ r
    else if c = cDot ∨ c = cLBr then none
    else bodyScan c inQ r

/-- a well-formed token: a split character, then a body without unquoted split characters that ends
    outside quotes -/
def tokOK : Bytes → Bool
  | [] => false
  | c0 :: body => isSplit c0 && (match bodyScan c0 false body with | some (_, false) => true | _ => false)

def push (cur : Bytes) (acc : List Bytes) : List Bytes := if cur = [] then acc else cur.reverse :: acc

theorem tokenizeLoop_body (body : Bytes) : ∀ (prev : Byte) (inQ : Bool) (cur : Bytes) (acc : List Bytes) (rest : Bytes)
    (p' : Byte) (q' : Bool), bodyScan prev inQ body = some (p', q') →
    tokenizeLoop prev inQ cur acc (body ++ rest) = tokenizeLoop p' q' (body.reverse ++ cur) acc rest := by
  induction body with
  | nil => intro prev inQ cur acc rest p' q' h; simp [bodyScan] at h; obtain ⟨h1, h2⟩ := h; subst h1; subst h2; simp
  | cons c r ih =>
    intro prev inQ cur acc rest p' q' h
    unfold bodyScan at h
    rw [List.cons_append]
    conv => lhs; unfold tokenizeLoop
    by_cases h1 : c = cQuote ∧ prev ≠ cBackslash
    · rw [if_pos h1] at h ⊢
      rw [ih c (!inQ) (c :: cur) acc rest p' q' h]; simp
    · rw [if_neg h1] at h ⊢
      by_cases h2 : inQ = true
      · rw [if_pos h2] at h ⊢
        rw [ih c inQ (c :: cur) acc rest p' q' h]; simp
      · rw [if_neg h2] at h ⊢
        by_cases h3 : c = cDot ∨ c = cLBr
        · rw [if_pos h3] at h; cases h
        · rw [if_neg h3] at h ⊢
          rw [ih c inQ (c :: cur) acc rest p' q' h]; simp

theorem isSplit_not_quote (c : Byte) (h : isSplit c = true) : c ≠ cQuote := by
  intro hq; subst hq; revert h; decide

theorem isSplit_iff (c : Byte) : isSplit c = true ↔ (c = cDot ∨ c = cLBr) := by
  simp [isSplit]

/-- one well-formed token in front of the input is consumed as one token -/
theorem tokenizeLoop_token (t : Bytes) (ht : tokOK t = true) (prev : Byte) (cur : Bytes) (acc : List Bytes) (rest : Bytes) :
    ∃ p', tokenizeLoop prev false cur acc (t ++ rest) = tokenizeLoop p' false t.reverse (push cur acc) rest := by
  cases t with
  | nil => simp [tokOK] at ht
  | cons c0 body =>
    simp only [tokOK, Bool.and_eq_true] at ht
    obtain ⟨hs, hb⟩ := ht
    have hnq := isSplit_not_quote c0 hs
    have hsp := (isSplit_iff c0).mp hs
    cases hscan : bodyScan c0 false body with
    | none => rw [hscan] at hb; cases hb
    | some pq =>
      obtain ⟨p', q'⟩ := pq
      rw [hscan] at hb
      cases q' with
      | true => cases hb
      | false =>
        refine ⟨p', ?_⟩
        rw [List.cons_append]
        conv => lhs; unfold tokenizeLoop
        rw [if_neg (fun h => hnq h.1), if_neg (by simp), if_pos hsp]
        rw [tokenizeLoop_body body c0 false [c0] _ rest p' false hscan]
        simp [push]

theorem tokOK_ne_nil (t : Bytes) (h : tokOK t = true) : t ≠ [] := by
  intro ht; subst ht; simp [tokOK] at h

/-- tokenizing the concatenation of well-formed tokens gives back exactly these tokens -/
theorem tokenizeLoop_flatten_ok (toks : List Bytes) (h : ∀ t ∈ toks, tokOK t = true) :
    ∀ (prev : Byte) (cur : Bytes) (acc : List Bytes),
      tokenizeLoop prev false cur acc toks.flatten = ((push cur acc).reverse ++ toks, false) := by
  induction toks with
  | nil => intro prev cur acc; simp [tokenizeLoop, push]
  | cons t ts ih =>
    intro prev cur acc
    have ht := h t List.mem_cons_self
    obtain ⟨p', hp⟩ := tokenizeLoop_token t ht prev cur acc ts.flatten
    rw [List.flatten_cons, hp, ih (fun x hx => h x (List.mem_cons_of_mem _ hx))]
    have hne : t.reverse ≠ [] := by simpa using tokOK_ne_nil t ht
    simp [push, hne]

theorem tokenize_flatten (toks : List Bytes) (h : ∀ t ∈ toks, tokOK t = true) :
    tokenize toks.flatten = (toks, false) := by
  unfold tokenize
  rw [tokenizeLoop_flatten_ok toks h]; simp [push]

theorem bodyScan_snoc (body : Bytes) : ∀ (p : Byte) (q : Bool) (c : Byte),
    bodyScan p q (body ++ [c]) = (bodyScan p q body).bind (fun pq => bodyScan pq.1 pq.2 [c]) := by
  induction body with
  | nil => intro p q c; simp [bodyScan]
  | cons x xs ih =>
    intro p q c
    rw [List.cons_append]
    unfold bodyScan
    by_cases h1 : x = cQuote ∧ p ≠ cBackslash
    · rw [if_pos h1, if_pos h1]; exact ih _ _ _
    · rw [if_neg h1, if_neg h1]
      by_cases h2 : q = true
      · rw [if_pos h2, if_pos h2]; exact ih _ _ _
      · rw [if_neg h2, if_neg h2]
        by_cases h3 : x = cDot ∨ x = cLBr
        · rw [if_pos h3, if_pos h3]; rfl
        · rw [if_neg h3, if_neg h3]; exact ih _ _ _

/-- the state of the tokenizer while it is inside a token: `cur` (reversed) is a split character followed
    by a body whose scan gives the current quote state -/
def CurOK (prev : Byte) (inQ : Bool) (cur : Bytes) : Prop :=
  ∃ c0 body, cur.reverse = c0 :: body ∧ isSplit c0 = true ∧ bodyScan c0 false body = some (prev, inQ)

theorem curOK_done (prev : Byte) (cur : Bytes) (h : CurOK prev false cur) : tokOK cur.reverse = true := by
  obtain ⟨c0, body, hc, hs, hb⟩ := h
  rw [hc]; simp [tokOK, hs, hb]

theorem curOK_step (prev : Byte) (inQ : Bool) (cur : Bytes) (c : Byte) (inQ' : Bool)
    (h : CurOK prev inQ cur) (hstep : bodyScan prev inQ [c] = some (c, inQ')) : CurOK c inQ' (c :: cur) := by
  obtain ⟨c0, body, hc, hs, hb⟩ := h
  refine ⟨c0, body ++ [c], by simp [hc], hs, ?_⟩
  rw [bodyScan_snoc, hb]; exact hstep

theorem tokenizeLoop_tokOK (rest : Bytes) : ∀ (prev : Byte) (inQ : Bool) (cur : Bytes) (acc : List Bytes),
    CurOK prev inQ cur → (∀ t ∈ acc, tokOK t = true) → (tokenizeLoop prev inQ cur acc rest).2 = false →
    ∀ t ∈ (tokenizeLoop prev inQ cur acc rest).1, tokOK t = true := by
  induction rest with
  | nil =>
    intro prev inQ cur acc hcur hacc hclosed
    unfold tokenizeLoop at hclosed ⊢
    simp only at hclosed
    subst hclosed
    intro t ht
    have hne : cur ≠ [] := by
      obtain ⟨c0, body, hc, _, _⟩ := hcur
      intro h; subst h; simp at hc
    simp [hne] at ht
    rcases ht with ht | ht
    · exact hacc t ht
    · subst ht; exact curOK_done prev cur hcur
  | cons c rest ih =>
    intro prev inQ cur acc hcur hacc hclosed
    unfold tokenizeLoop at hclosed ⊢
    by_cases h1 : c = cQuote ∧ prev ≠ cBackslash
    · rw [if_pos h1] at hclosed ⊢
      exact ih c (!inQ) (c :: cur) acc (curOK_step prev inQ cur c (!inQ) hcur (by simp [bodyScan, h1])) hacc hclosed
    · rw [if_neg h1] at hclosed ⊢
      by_cases h2 : inQ = true
      · rw [if_pos h2] at hclosed ⊢
        exact ih c inQ (c :: cur) acc (curOK_step prev inQ cur c inQ hcur (by simp [bodyScan, h1, h2])) hacc hclosed
      · rw [if_neg h2] at hclosed ⊢
        have hq : inQ = false := by simpa using h2
        by_cases h3 : c = cDot ∨ c = cLBr
        · rw [if_pos h3] at hclosed ⊢
          have hne : cur ≠ [] := by
            obtain ⟨c0, body, hc, _, _⟩ := hcur
            intro h; subst h; simp at hc
          refine ih c inQ [c] _ ⟨c, [], by simp, (isSplit_iff c).mpr h3, by simp [bodyScan, hq]⟩ ?_ hclosed
          intro t ht
          simp [hne] at ht
          rcases ht with ht | ht
          · subst ht; subst hq; exact curOK_done prev cur hcur
          · exact hacc t ht
        · rw [if_neg h3] at hclosed ⊢
          exact ih c inQ (c :: cur) acc (curOK_step prev inQ cur c inQ hcur (by simp [bodyScan, h1, h2, h3])) hacc hclosed

/-- every token of a text that starts with `.` and ends outside quotes is well formed -/
theorem tokenize_tokOK (s : Bytes) (hhead : s.head? = some cDot) (hclosed : (tokenize s).2 = false) :
    ∀ t ∈ (tokenize s).1, tokOK t = true := by
  cases s with
  | nil => simp at hhead
  | cons c r =>
    simp at hhead; subst hhead
    have hstep : tokenize (cDot :: r) = tokenizeLoop cDot false [cDot] [] r := by
      unfold tokenize
      conv => lhs; unfold tokenizeLoop
      rw [if_neg (by decide), if_neg (by simp), if_pos (Or.inl rfl)]; simp
    rw [hstep] at hclosed ⊢
    exact tokenizeLoop_tokOK r cDot false [cDot] [] ⟨cDot, [], by simp, by decide, by simp [bodyScan]⟩ (by simp) hclosed

/-! ### what `Parse` stores for a token, and what it prints -/

/-- the text `Parse` keeps for a token: identity segments are stored as "." -/
def normTok (tok : Bytes) : Bytes :=
  if (if tok.getLast? = some cQM then trimQM tok else tok) = [cDot] then [cDot] else tok

theorem tokOK_normTok (tok : Bytes) (h : tokOK tok = true) : tokOK (normTok tok) = true := by
  unfold normTok
  by_cases hd : (if tok.getLast? = some cQM then trimQM tok else tok) = [cDot]
  · rw [if_pos hd]; decide
  · rw [if_neg hd]; exact h

theorem parseToken_normTok (isLetter : Nat → Bool) (li : Bool) (tok : Bytes) :
    parseToken isLetter li (normTok tok) = parseToken isLetter li tok := by
  unfold normTok
  by_cases h : (if tok.getLast? = some cQM then trimQM tok else tok) = [cDot]
  · rw [if_pos h]
    have h1 : parseToken isLetter li [cDot] =
        (if li then .error .recursiveDescent else .ok { str := [cDot], identity := true }) := by
      unfold parseToken
      have h0 : (([cDot] : Bytes).getLast? = some cQM) = False := by decide
      simp only [h0, if_false, if_true]
    rw [h1]
    unfold parseToken
    simp only
    rw [if_pos h]
  · rw [if_neg h]

theorem parseToken_str (isLetter : Nat → Bool) (li : Bool) (tok : Bytes) (sg : Seg)
    (h : parseToken isLetter li tok = .ok sg) : sg.str = normTok tok := by
  unfold parseToken at h
  simp only at h
  unfold normTok
  by_cases hdot : (if tok.getLast? = some cQM then trimQM tok else tok) = [cDot]
  · rw [if_pos hdot] at h ⊢
    split at h
    · cases h
    · cases h; rfl
  · rw [if_neg hdot] at h ⊢
    cases hb : classifyBody isLetter (if tok.getLast? = some cQM then trimQM tok else tok) with
    | error e => rw [hb] at h; cases h
    | ok body => rw [hb] at h; cases h; cases body <;> rfl

theorem parseLoop_normTok (isLetter : Nat → Bool) (toks : List Bytes) : ∀ sel : List Seg,
    parseLoop isLetter sel (toks.map normTok) = parseLoop isLetter sel toks := by
  induction toks with
  | nil => intro sel; rfl
  | cons t ts ih =>
    intro sel
    rw [List.map_cons]
    unfold parseLoop
    rw [parseToken_normTok]
    split
    · rfl
    · exact ih _

theorem parseLoop_print (isLetter : Nat → Bool) (toks : List Bytes) : ∀ (sel res : List Seg),
    parseLoop isLetter sel toks = .ok res → print res = print sel ++ (toks.map normTok).flatten := by
  induction toks with
  | nil => intro sel res h; simp [parseLoop] at h; subst h; simp
  | cons t ts ih =>
    intro sel res h
    unfold parseLoop at h
    split at h
    · cases h
    · rename_i sg hsg
      rw [ih _ _ h]
      have := parseToken_str isLetter _ t sg hsg
      simp [print, this]

end Ucan.Selector
