import Ucan.Props.C12
import Ucan.Props.C14
import Ucan.Props.C11
import Ucan.Lemmas.Container
import Ucan.Lemmas.Cbor
/-! Helper lemmas for C09 (robustness). Property theorems are in `Ucan/Props/C09.lean`. -/
set_option linter.unusedSimpArgs false
namespace Ucan.Selector

/-! ## `selector.Parse` never reaches its slice-bounds panic -/

/-- the quote state of `tokenize` after one more byte: (previous byte, inside quotes) -/
def qstep (st : Byte × Bool) (c : Byte) : Byte × Bool :=
  if c = cQuote ∧ st.1 ≠ cBackslash then (c, !st.2) else (c, st.2)

/-- the quote state after scanning a token from its first byte -/
def qscan (bs : Bytes) : Byte × Bool := bs.foldl qstep (0, false)

theorem qscan_snoc (bs : Bytes) (c : Byte) : qscan (bs ++ [c]) = qstep (qscan bs) c := by
  simp [qscan, List.foldl_append]

/-- every token that `tokenize` emits closes the quotes it opens, when the input as a whole does -/
theorem tokenizeLoop_closed (prev : Byte) (inQ : Bool) (cur : Bytes) (acc : List Bytes) (rest : Bytes)
    (hst : qscan cur.reverse = (prev, inQ))
    (hacc : ∀ t ∈ acc, (qscan t).2 = false)
    (hclosed : (tokenizeLoop prev inQ cur acc rest).2 = false) :
    ∀ t ∈ (tokenizeLoop prev inQ cur acc rest).1, (qscan t).2 = false := by
  induction rest generalizing prev inQ cur acc with
  | nil =>
    unfold tokenizeLoop at hclosed ⊢
    simp only at hclosed
    subst hclosed
    intro t ht
    by_cases h : cur = []
    · simp [h] at ht; exact hacc t ht
    · simp [h] at ht
      rcases ht with ht | ht
      · exact hacc t ht
      · subst ht; rw [hst]
  | cons c rest ih =>
    unfold tokenizeLoop at hclosed ⊢
    by_cases h1 : c = cQuote ∧ prev ≠ cBackslash
    · rw [if_pos h1] at hclosed ⊢
      refine ih c (!inQ) (c :: cur) acc ?_ hacc hclosed
      rw [List.reverse_cons, qscan_snoc, hst]; simp [qstep, h1]
    · rw [if_neg h1] at hclosed ⊢
      by_cases h2 : inQ = true
      · rw [if_pos h2] at hclosed ⊢
        refine ih c inQ (c :: cur) acc ?_ hacc hclosed
        rw [List.reverse_cons, qscan_snoc, hst]; simp only [qstep]; rw [if_neg h1]
      · rw [if_neg h2] at hclosed ⊢
        have hq : inQ = false := by simpa using h2
        by_cases h3 : c = cDot ∨ c = cLBr
        · rw [if_pos h3] at hclosed ⊢
          refine ih c inQ [c] _ ?_ ?_ hclosed
          · have hc : c ≠ cQuote := by rcases h3 with h | h <;> (subst h; decide)
            simp [qscan, qstep, hc, hq]
          · intro t ht
            by_cases h : cur = []
            · simp [h] at ht; exact hacc t ht
            · simp [h] at ht
              rcases ht with ht | ht
              · subst ht; rw [hst, hq]
              · exact hacc t ht
        · rw [if_neg h3] at hclosed ⊢
          refine ih c inQ (c :: cur) acc ?_ hacc hclosed
          rw [List.reverse_cons, qscan_snoc, hst]; simp only [qstep]; rw [if_neg h1]

theorem tokenize_closed (s : Bytes) (h : (tokenize s).2 = false) :
    ∀ t ∈ (tokenize s).1, (qscan t).2 = false :=
  tokenizeLoop_closed 0 false [] [] s rfl (by simp) h

/-- question marks do not change the quote state -/
theorem foldl_qstep_qm (qs : Bytes) (st : Byte × Bool) (h : ∀ c ∈ qs, c = cQM) :
    (qs.foldl qstep st).2 = st.2 := by
  induction qs generalizing st with
  | nil => rfl
  | cons c qs ih =>
    have hc : c = cQM := h c List.mem_cons_self
    rw [List.foldl_cons, ih _ (fun c' hc' => h c' (List.mem_cons_of_mem _ hc'))]
    subst hc
    simp [qstep, cQM, cQuote]

theorem mem_takeWhile_sat {α} (p : α → Bool) (l : List α) : ∀ c ∈ l.takeWhile p, p c = true := by
  induction l with
  | nil => simp
  | cons x xs ih =>
    intro c hc
    by_cases hx : p x = true
    · rw [List.takeWhile_cons_of_pos hx] at hc
      rcases List.mem_cons.mp hc with h | h
      · subst h; exact hx
      · exact ih c h
    · rw [List.takeWhile_cons_of_neg hx] at hc; cases hc

theorem qscan_trimQM (tok : Bytes) : (qscan tok).2 = (qscan (trimQM tok)).2 := by
  have hsplit : tok = trimQM tok ++ (tok.reverse.takeWhile (· = cQM)).reverse := by
    unfold trimQM
    rw [← List.reverse_append, List.takeWhile_append_dropWhile, List.reverse_reverse]
  conv => lhs; rw [hsplit]
  unfold qscan
  rw [List.foldl_append]
  apply foldl_qstep_qm
  intro c hc
  have := mem_takeWhile_sat _ _ c (List.mem_reverse.mp hc)
  simpa using this

theorem sliceBound_ne_panic (b : Bytes) (s : Int) : sliceBound b s ≠ .error .panicSliceBounds := by
  unfold sliceBound
  split
  · simp
  · split
    · simp
    · split <;> simp

/-- the only segment text that makes Go evaluate `lookup[1:0]` is `["]` -/
theorem classifyBody_panic (isLetter : Nat → Bool) (seg : Bytes)
    (h : classifyBody isLetter seg = .error .panicSliceBounds) : seg = [cLBr, cQuote, cRBr] := by
  unfold classifyBody at h
  split at h; · cases h
  split at h
  · rename_i hbr
    simp only at h
    split at h
    · split at h
      · cases h
      · split at h <;> cases h
    · split at h
      · rename_i hq
        split at h
        · rename_i hlen
          -- seg = '[' :: t, t.dropLast = ['"'], last of t = ']'
          rcases seg with _ | ⟨a, t⟩
          · simp at hbr
          · rcases t with _ | ⟨b, _ | ⟨c, _ | ⟨d, r⟩⟩⟩
            · simp at hq
            · simp at hq
            · simp at hbr hq
              obtain ⟨ha, hc⟩ := hbr
              subst ha; subst hc; rw [hq]
            · simp at hlen; omega
        · split at h <;> cases h
      · split at h
        · split at h
          · cases h
          · rename_i a b _
            cases ha : sliceBound a minInt with
            | error e =>
              rw [ha] at h; simp only at h
              exact absurd (by cases h; exact ha) (sliceBound_ne_panic a minInt)
            | ok l =>
              rw [ha] at h; simp only at h
              cases hb : sliceBound b maxInt with
              | error e =>
                rw [hb] at h; simp only at h
                exact absurd (by cases h; exact hb) (sliceBound_ne_panic b maxInt)
              | ok hh => rw [hb] at h; cases h
        · cases h
  · split at h <;> cases h

theorem qscan_panic_seg : (qscan [cLBr, cQuote, cRBr]).2 = true := by decide

theorem parseToken_panic (isLetter : Nat → Bool) (li : Bool) (tok : Bytes)
    (h : parseToken isLetter li tok = .error .panicSliceBounds) : (qscan tok).2 = true := by
  unfold parseToken at h
  simp only at h
  by_cases hdot : (if tok.getLast? = some cQM then trimQM tok else tok) = [cDot]
  · rw [if_pos hdot] at h
    split at h <;> cases h
  · rw [if_neg hdot] at h
    cases hb : classifyBody isLetter (if tok.getLast? = some cQM then trimQM tok else tok) with
    | ok body => rw [hb] at h; cases h
    | error e =>
      rw [hb] at h
      cases h
      have hseg := classifyBody_panic _ _ hb
      by_cases ho : tok.getLast? = some cQM
      · rw [if_pos ho] at hseg
        rw [qscan_trimQM, hseg]; exact qscan_panic_seg
      · rw [if_neg ho] at hseg
        rw [hseg]; exact qscan_panic_seg

theorem parseLoop_panic (isLetter : Nat → Bool) (sel : List Seg) (toks : List Bytes)
    (h : parseLoop isLetter sel toks = .error .panicSliceBounds) : ∃ t ∈ toks, (qscan t).2 = true := by
  induction toks generalizing sel with
  | nil => simp [parseLoop] at h
  | cons tok toks ih =>
    unfold parseLoop at h
    split at h
    · rename_i e he
      cases h
      exact ⟨tok, List.mem_cons_self, parseToken_panic _ _ _ he⟩
    · obtain ⟨t, ht, hq⟩ := ih _ h
      exact ⟨t, List.mem_cons_of_mem _ ht, hq⟩



/-! ## a parsed selector is no larger than its source -/

theorem tokenizeLoop_nonempty (prev : Byte) (inQ : Bool) (cur : Bytes) (acc : List Bytes) (rest : Bytes)
    (hacc : ∀ t ∈ acc, t ≠ []) : ∀ t ∈ (tokenizeLoop prev inQ cur acc rest).1, t ≠ [] := by
  induction rest generalizing prev inQ cur acc with
  | nil =>
    unfold tokenizeLoop
    intro t ht
    by_cases h : cur = []
    · simp [h] at ht; exact hacc t ht
    · simp [h] at ht
      rcases ht with ht | ht
      · exact hacc t ht
      · subst ht; simpa using h
  | cons c rest ih =>
    unfold tokenizeLoop
    by_cases h1 : c = cQuote ∧ prev ≠ cBackslash
    · rw [if_pos h1]; exact ih _ _ _ _ hacc
    · rw [if_neg h1]
      by_cases h2 : inQ = true
      · rw [if_pos h2]; exact ih _ _ _ _ hacc
      · rw [if_neg h2]
        by_cases h3 : c = cDot ∨ c = cLBr
        · rw [if_pos h3]
          apply ih
          intro t ht
          by_cases h : cur = []
          · simp [h] at ht; exact hacc t ht
          · simp [h] at ht
            rcases ht with ht | ht
            · subst ht; simpa using h
            · exact hacc t ht
        · rw [if_neg h3]; exact ih _ _ _ _ hacc

theorem trimQM_length_le (tok : Bytes) : (trimQM tok).length ≤ tok.length := by
  unfold trimQM
  rw [List.length_reverse]
  calc (tok.reverse.dropWhile (· = cQM)).length ≤ tok.reverse.length := (List.dropWhile_sublist _).length_le
    _ = tok.length := List.length_reverse

theorem segOfTok_length (tok : Bytes) (sg : Seg) (h : Ucan.Policy.SegOfTok tok sg) :
    sg.str.length ≤ tok.length := by
  rcases h with h | ⟨_, h2, h3⟩
  · rw [h]; exact Nat.le_refl _
  · rw [h2]
    have := trimQM_length_le tok
    rw [h3] at this; simpa using this

theorem zip_print_length (toks : List Bytes) (sel : List Seg) (h : Ucan.Policy.Zip Ucan.Policy.SegOfTok toks sel) :
    (print sel).length ≤ toks.flatten.length ∧ sel.length = toks.length := by
  induction h with
  | nil => simp [print]
  | cons hr _ ih =>
    have := segOfTok_length _ _ hr
    simp only [print, List.map_cons, List.flatten_cons, List.length_append, List.length_cons] at ih ⊢
    omega

theorem flatten_length_ge (toks : List Bytes) (h : ∀ t ∈ toks, t ≠ []) : toks.length ≤ toks.flatten.length := by
  induction toks with
  | nil => simp
  | cons t ts ih =>
    have ht : t ≠ [] := h t List.mem_cons_self
    have := ih (fun t' ht' => h t' (List.mem_cons_of_mem _ ht'))
    have hl : 0 < t.length := List.length_pos_iff.mpr ht
    simp only [List.flatten_cons, List.length_append, List.length_cons]
    omega

end Ucan.Selector

namespace Ucan.Cbor
open Ucan

/-! ## a decoded DAG-CBOR tree weighs no more than the bytes it was read from -/

mutual
/-- bytes needed to hold the tree: one per node, plus the payload of strings, byte strings, links and keys -/
def weight : Node → Nat
  | .bytes b => 1 + b.length
  | .str s => 1 + s.length
  | .link c => 1 + c.length
  | .list xs => 1 + weightL xs
  | .map kvs => 1 + weightM kvs
  | .null => 1
  | .bool _ => 1
  | .int _ => 1
  | .float _ => 1
def weightL : List Node → Nat
  | [] => 0
  | x :: xs => weight x + weightL xs
def weightM : List (Bytes × Node) → Nat
  | [] => 0
  | (k, v) :: r => 1 + k.length + weight v + weightM r
end

theorem readHead_consumes (bs r : Bytes) (m ai n : Nat) (h : readHead bs = some (m, ai, n, r)) :
    r.length + 1 ≤ bs.length := by
  unfold readHead at h
  cases bs with
  | nil => cases h
  | cons b t =>
    simp only at h
    by_cases h1 : b.toNat % 32 < 24
    · rw [if_pos h1] at h; cases h; simp
    · rw [if_neg h1] at h
      generalize (if b.toNat % 32 = 24 then 1 else if b.toNat % 32 = 25 then 2 else if b.toNat % 32 = 26 then 4
        else if b.toNat % 32 = 27 then 8 else 0) = w at h
      by_cases h2 : w = 0
      · rw [if_pos h2] at h; cases h
      · rw [if_neg h2] at h
        by_cases h3 : t.length < w
        · rw [if_pos h3] at h; cases h
        · rw [if_neg h3] at h; cases h; simp [List.length_drop]

/-- `decodeF` one level down, given the bounds for the list and map loops it calls -/
theorem decodeF_bounded_step (f : Nat)
    (ihL : ∀ k bs xs r, decodeListF f k bs = some (xs, r) → weightL xs + r.length ≤ bs.length ∧ xs.length = k)
    (ihM : ∀ k bs kvs r, decodeMapF f k bs = some (kvs, r) → weightM kvs + r.length ≤ bs.length ∧ kvs.length = k)
    (bs : Bytes) (n : Node) (r : Bytes) (h : decodeF (f + 1) bs = some (n, r)) :
    weight n + r.length ≤ bs.length := by
  unfold decodeF at h
  cases hh : readHead bs with
  | none => rw [hh] at h; cases h
  | some q =>
    obtain ⟨m, ai, a, r1⟩ := q
    rw [hh] at h
    have hc := readHead_consumes _ _ _ _ _ hh
    simp only at h
    by_cases m0 : m = 0
    · rw [if_pos m0] at h; cases h; rw [weight]; omega
    rw [if_neg m0] at h
    by_cases m1 : m = 1
    · rw [if_pos m1] at h
      by_cases hb : a ≥ 2 ^ 63
      · rw [if_pos hb] at h; cases h
      · rw [if_neg hb] at h; cases h; rw [weight]; omega
    rw [if_neg m1] at h
    by_cases m2 : m = 2
    · rw [if_pos m2] at h
      by_cases hb : r1.length < a
      · rw [if_pos hb] at h; cases h
      · rw [if_neg hb] at h; cases h; rw [weight]; simp only [List.length_take, List.length_drop]; omega
    rw [if_neg m2] at h
    by_cases m3 : m = 3
    · rw [if_pos m3] at h
      by_cases hb : r1.length < a
      · rw [if_pos hb] at h; cases h
      · rw [if_neg hb] at h; cases h; rw [weight]; simp only [List.length_take, List.length_drop]; omega
    rw [if_neg m3] at h
    by_cases m4 : m = 4
    · rw [if_pos m4] at h
      cases hl : decodeListF f a r1 with
      | none => rw [hl] at h; cases h
      | some p =>
        obtain ⟨xs, r'⟩ := p
        rw [hl] at h; cases h
        have := (ihL _ _ _ _ hl).1
        rw [weight]; omega
    rw [if_neg m4] at h
    by_cases m5 : m = 5
    · rw [if_pos m5] at h
      cases hl : decodeMapF f a r1 with
      | none => rw [hl] at h; cases h
      | some p =>
        obtain ⟨kvs, r'⟩ := p
        rw [hl] at h; cases h
        have := (ihM _ _ _ _ hl).1
        rw [weight]; omega
    rw [if_neg m5] at h
    by_cases m6 : m = 6
    · rw [if_pos m6] at h
      by_cases h42 : a ≠ 42
      · rw [if_pos h42] at h; cases h
      · rw [if_neg h42] at h
        split at h
        · rename_i len r2 hh2
          have hc2 := readHead_consumes _ _ _ _ _ hh2
          by_cases hb : r2.length < len
          · rw [if_pos hb] at h; cases h
          · rw [if_neg hb] at h
            split at h
            · rename_i c hc3
              split at h
              · cases h
                have hlen : (List.take len r2).length = c.length + 1 := by rw [hc3]; simp
                simp only [List.length_take] at hlen
                rw [weight]; simp only [List.length_drop]; omega
              · cases h
            · cases h
        · cases h
    rw [if_neg m6] at h
    by_cases a20 : ai = 20
    · rw [if_pos a20] at h; cases h; rw [weight]; omega
    rw [if_neg a20] at h
    by_cases a21 : ai = 21
    · rw [if_pos a21] at h; cases h; rw [weight]; omega
    rw [if_neg a21] at h
    by_cases a22 : ai = 22
    · rw [if_pos a22] at h; cases h; rw [weight]; omega
    rw [if_neg a22] at h
    by_cases a27 : ai = 27
    · rw [if_pos a27] at h; cases h; rw [weight]; omega
    rw [if_neg a27] at h; cases h

theorem decodeListF_bounded_step (f : Nat)
    (ihA : ∀ bs n r, decodeF f bs = some (n, r) → weight n + r.length ≤ bs.length)
    (ihL : ∀ k bs xs r, decodeListF f k bs = some (xs, r) → weightL xs + r.length ≤ bs.length ∧ xs.length = k)
    (k : Nat) (bs : Bytes) (xs : List Node) (r : Bytes) (h : decodeListF (f + 1) k bs = some (xs, r)) :
    weightL xs + r.length ≤ bs.length ∧ xs.length = k := by
  cases k with
  | zero => unfold decodeListF at h; cases h; simp [weightL]
  | succ k =>
    unfold decodeListF at h
    cases hx : decodeF f bs with
    | none => rw [hx] at h; cases h
    | some p =>
      obtain ⟨x, r1⟩ := p
      rw [hx] at h; simp only at h
      cases hl : decodeListF f k r1 with
      | none => rw [hl] at h; cases h
      | some p2 =>
        obtain ⟨xs', r2⟩ := p2
        rw [hl] at h; cases h
        have h1 := ihA _ _ _ hx
        have h2 := ihL _ _ _ _ hl
        rw [weightL]; simp only [List.length_cons]; omega

theorem decodeMapF_bounded_step (f : Nat)
    (ihA : ∀ bs n r, decodeF f bs = some (n, r) → weight n + r.length ≤ bs.length)
    (ihM : ∀ k bs kvs r, decodeMapF f k bs = some (kvs, r) → weightM kvs + r.length ≤ bs.length ∧ kvs.length = k)
    (k : Nat) (bs : Bytes) (kvs : List (Bytes × Node)) (r : Bytes) (h : decodeMapF (f + 1) k bs = some (kvs, r)) :
    weightM kvs + r.length ≤ bs.length ∧ kvs.length = k := by
  cases k with
  | zero => unfold decodeMapF at h; cases h; simp [weightM]
  | succ k =>
    unfold decodeMapF at h
    split at h
    · rename_i len r1 hh
      have hc := readHead_consumes _ _ _ _ _ hh
      by_cases hb : r1.length < len
      · rw [if_pos hb] at h; cases h
      · rw [if_neg hb] at h
        cases hv : decodeF f (r1.drop len) with
        | none => rw [hv] at h; cases h
        | some p =>
          obtain ⟨v, r2⟩ := p
          rw [hv] at h; simp only at h
          cases hm : decodeMapF f k r2 with
          | none => rw [hm] at h; cases h
          | some p2 =>
            obtain ⟨kvs', r3⟩ := p2
            rw [hm] at h; cases h
            have h1 := ihA _ _ _ hv
            have h2 := ihM _ _ _ _ hm
            simp only [List.length_drop] at h1
            rw [weightM]; simp only [List.length_take, List.length_cons]; omega
    · cases h

theorem decode_bounded (fuel : Nat) :
    (∀ bs n r, decodeF fuel bs = some (n, r) → weight n + r.length ≤ bs.length) ∧
    (∀ k bs xs r, decodeListF fuel k bs = some (xs, r) → weightL xs + r.length ≤ bs.length ∧ xs.length = k) ∧
    (∀ k bs kvs r, decodeMapF fuel k bs = some (kvs, r) → weightM kvs + r.length ≤ bs.length ∧ kvs.length = k) := by
  induction fuel with
  | zero =>
    refine ⟨?_, ?_, ?_⟩
    · intro bs n r h; unfold decodeF at h; cases h
    · intro k bs xs r h; unfold decodeListF at h; cases h
    · intro k bs kvs r h; unfold decodeMapF at h; cases h
  | succ f ih =>
    obtain ⟨ihA, ihL, ihM⟩ := ih
    exact ⟨decodeF_bounded_step f ihL ihM, decodeListF_bounded_step f ihA ihL, decodeMapF_bounded_step f ihA ihM⟩

end Ucan.Cbor

namespace Ucan.Container

theorem readUvarint_consumes (fuel : Nat) (b : Bytes) (v : Nat) (r : Bytes) (h : readUvarint fuel b = some (v, r)) :
    r.length < b.length := by
  induction fuel generalizing b v r with
  | zero => unfold readUvarint at h; cases h
  | succ f ih =>
    cases b with
    | nil => unfold readUvarint at h; cases h
    | cons x t =>
      unfold readUvarint at h
      by_cases hx : x.toNat < 128
      · rw [if_pos hx] at h; cases h; simp
      · rw [if_neg hx] at h
        cases hr : readUvarint f t with
        | none => rw [hr] at h; cases h
        | some p =>
          obtain ⟨v', r'⟩ := p
          rw [hr] at h; cases h
          have := ih _ _ _ hr
          simp only [List.length_cons]; omega

end Ucan.Container
