import Ucan.Model.CidStream
/-! Invariants of the CID stream wrappers over arbitrary histories of deliveries (helper lemmas for C08 and C18). -/
namespace Ucan.CidStream

theorem run_err_sticky (r : Reader) (e : Nat) (h : r.err = some e) (hist : List (Bytes × Outcome)) :
    ∃ e', (r.run hist).err = some e' := by
  induction hist generalizing r e with
  | nil => exact ⟨e, h⟩
  | cons x rest ih =>
    obtain ⟨d, o⟩ := x
    cases o with
    | fail e2 => exact ih (r.read d (.fail e2)) e2 rfl
    | ok => exact ih (r.read d .ok) e (by simpa [Reader.read] using h)
    | eof => exact ih (r.read d .eof) e (by simpa [Reader.read] using h)

/-- the invariant: as long as nothing failed, exactly the delivered bytes have been hashed, in order; the first failure is latched
and stays -/
theorem run_spec (r : Reader) (hist : List (Bytes × Outcome)) (h0 : r.err = none) :
    (anyFail hist = none → (r.run hist).err = none ∧ (r.run hist).hashed = r.hashed ++ delivered hist) ∧
    (∀ e, anyFail hist = some e → ∃ e', (r.run hist).err = some e') := by
  induction hist generalizing r with
  | nil => simp [Reader.run, delivered, anyFail, h0]
  | cons x rest ih =>
    obtain ⟨d, o⟩ := x
    cases o with
    | fail e2 =>
      refine ⟨by simp [anyFail], fun e _ => ?_⟩
      exact run_err_sticky (r.read d (.fail e2)) e2 rfl rest
    | ok =>
      have h1 : (r.read d .ok).err = none := by simpa [Reader.read] using h0
      obtain ⟨a, b⟩ := ih (r.read d .ok) h1
      refine ⟨fun hf => ?_, fun e hf => b e (by simpa [anyFail] using hf)⟩
      obtain ⟨a1, a2⟩ := a (by simpa [anyFail] using hf)
      refine ⟨a1, ?_⟩
      show ((r.read d .ok).run rest).hashed = _
      rw [a2]; simp [Reader.read, delivered, List.append_assoc]
    | eof =>
      have h1 : (r.read d .eof).err = none := by simpa [Reader.read] using h0
      obtain ⟨a, b⟩ := ih (r.read d .eof) h1
      refine ⟨fun hf => ?_, fun e hf => b e (by simpa [anyFail] using hf)⟩
      obtain ⟨a1, a2⟩ := a (by simpa [anyFail] using hf)
      refine ⟨a1, ?_⟩
      show ((r.read d .eof).run rest).hashed = _
      rw [a2]; simp [Reader.read, delivered, List.append_assoc]

theorem writer_run_spec (w : Writer) (ps : List Bytes) : (w.run ps).hashed = w.hashed ++ ps.flatten := by
  induction ps generalizing w with
  | nil => simp [Writer.run]
  | cons p rest ih => simp [Writer.run, ih, Writer.write, List.append_assoc]

end Ucan.CidStream
