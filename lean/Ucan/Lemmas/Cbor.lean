import Ucan.Model.Cbor
/-! The lenient decoder inverts the canonical encoder (basis of C08, C17, C18). -/
set_option linter.unusedSimpArgs false
namespace Ucan.Cbor

theorem beBytes_length (w n : Nat) : (beBytes w n).length = w := by
  induction w with
  | zero => rfl
  | succ w ih => simp [beBytes, ih]

theorem p256 (w : Nat) : 0 < 256 ^ w := Nat.pow_pos (by decide)

theorem beBytes_mod (w n : Nat) : beBytes w n = beBytes w (n % 256 ^ w) := by
  induction w generalizing n with
  | zero => rfl
  | succ v ihv =>
    simp only [beBytes]
    congr 1
    · rw [Nat.pow_succ, Nat.mod_mul_right_div_self, Nat.mod_mod_of_dvd _ (Nat.dvd_refl _)]
    · rw [ihv n, ihv (n % 256 ^ (v + 1))]
      congr 1
      rw [Nat.pow_succ, Nat.mod_mul_right_mod]

theorem beVal_beBytes (w n : Nat) (h : n < 256 ^ w) : beVal (beBytes w n) = n := by
  induction w generalizing n with
  | zero => simp [beBytes, beVal]; simp at h; omega
  | succ w ih =>
    simp only [beBytes, beVal, beBytes_length, UInt8.toNat_ofNat']
    have h1 : n / 256 ^ w < 256 := by
      apply Nat.div_lt_of_lt_mul; rw [Nat.pow_succ, Nat.mul_comm] at h; rw [Nat.mul_comm]; exact h
    rw [Nat.mod_eq_of_lt h1, Nat.mod_eq_of_lt h1]
    have h2 : n % 256 ^ w < 256 ^ w := Nat.mod_lt _ (p256 w)
    rw [beBytes_mod, ih _ h2]
    exact (Nat.div_add_mod' n (256 ^ w))

theorem readHead_head (m n : Nat) (r : Bytes) (hm : m < 8) (hn : n < 2 ^ 64) :
    ∃ ai, readHead (head m n ++ r) = some (m, ai, n, r) ∧ (n < 24 → ai = n) ∧ (24 ≤ n → 24 ≤ ai ∧ ai ≤ 27) := by
  unfold head
  split
  · rename_i h
    refine ⟨n, ?_, fun _ => rfl, fun h' => by omega⟩
    have h0 : (m * 32 + n) % 256 = m * 32 + n := by omega
    have h1 : (m * 32 + n) / 32 = m := by omega
    have h2 : (m * 32 + n) % 32 = n := by omega
    simp [readHead, UInt8.toNat_ofNat', h0, h1, h2, h]
  · split
    · have := beVal_beBytes 1 n (by omega)
      refine ⟨24, ?_, fun _ => by omega, fun _ => by omega⟩
      have h0 : (m * 32 + 24) % 256 = m * 32 + 24 := by omega
      have h1 : (m * 32 + 24) / 32 = m := by omega
      have h2 : (m * 32 + 24) % 32 = 24 := by omega
      simp [readHead, UInt8.toNat_ofNat', h0, h1, h2, beBytes_length, this]
    · split
      · have := beVal_beBytes 2 n (by omega)
        refine ⟨25, ?_, fun _ => by omega, fun _ => by omega⟩
        have h0 : (m * 32 + 25) % 256 = m * 32 + 25 := by omega
        have h1 : (m * 32 + 25) / 32 = m := by omega
        have h2 : (m * 32 + 25) % 32 = 25 := by omega
        simp [readHead, UInt8.toNat_ofNat', h0, h1, h2, beBytes_length, this]
      · split
        · have := beVal_beBytes 4 n (by omega)
          refine ⟨26, ?_, fun _ => by omega, fun _ => by omega⟩
          have h0 : (m * 32 + 26) % 256 = m * 32 + 26 := by omega
          have h1 : (m * 32 + 26) / 32 = m := by omega
          have h2 : (m * 32 + 26) % 32 = 26 := by omega
          simp [readHead, UInt8.toNat_ofNat', h0, h1, h2, beBytes_length, this]
        · have := beVal_beBytes 8 n (by omega)
          refine ⟨27, ?_, fun _ => by omega, fun _ => by omega⟩
          have h0 : (m * 32 + 27) % 256 = m * 32 + 27 := by omega
          have h1 : (m * 32 + 27) / 32 = m := by omega
          have h2 : (m * 32 + 27) % 32 = 27 := by omega
          simp [readHead, UInt8.toNat_ofNat', h0, h1, h2, beBytes_length, this]

mutual
/-- well-formed: every length fits the 64-bit argument of a CBOR head; integers are those go-ipld-prime
    can hold (int64, or uint64 as `plainUint`) -/
def WF : Node → Prop
  | .int i => -(2 ^ 63 : Int) ≤ i ∧ i < 2 ^ 64
  | .str s => s.length < 2 ^ 64
  | .bytes b => b.length < 2 ^ 64
  | .link c => c.length + 1 < 2 ^ 64 ∧ cidValid c = true
  | .list xs => xs.length < 2 ^ 64 ∧ WFL xs
  | .map kvs => kvs.length < 2 ^ 64 ∧ WFM kvs
  | _ => True
def WFL : List Node → Prop
  | [] => True
  | x :: xs => WF x ∧ WFL xs
def WFM : List (Bytes × Node) → Prop
  | [] => True
  | (k, v) :: kvs => k.length < 2 ^ 64 ∧ WF v ∧ WFM kvs
end

mutual
def size : Node → Nat
  | .list xs => 1 + sizeL xs
  | .map kvs => 1 + sizeM kvs
  | _ => 1
def sizeL : List Node → Nat
  | [] => 1
  | x :: xs => 1 + size x + sizeL xs
def sizeM : List (Bytes × Node) → Nat
  | [] => 1
  | (_, v) :: kvs => 1 + size v + sizeM kvs
end

mutual
theorem decode_encode : ∀ (n : Node) (r : Bytes) (fuel : Nat), WF n → size n ≤ fuel →
    decodeF fuel (encode n ++ r) = some (n, r)
  | .null, r, fuel, _, hf => by
    cases fuel with
    | zero => simp [size] at hf
    | succ f => simp [encode, decodeF, readHead]
  | .bool b, r, fuel, _, hf => by
    cases fuel with
    | zero => simp [size] at hf
    | succ f => cases b <;> simp [encode, decodeF, readHead]
  | .int i, r, fuel, hwf, hf => by
    cases fuel with
    | zero => simp [size] at hf
    | succ f =>
      simp only [WF] at hwf
      simp only [encode]
      split
      · rename_i hpos
        obtain ⟨ai, hh, _, _⟩ := readHead_head 0 i.toNat r (by decide) (by omega)
        simp only [decodeF, hh]
        simp [Int.toNat_of_nonneg hpos]
      · rename_i hneg
        obtain ⟨ai, hh, _, _⟩ := readHead_head 1 (-1 - i).toNat r (by decide) (by omega)
        have hlt : ¬ ((-1 - i).toNat ≥ 2 ^ 63) := by omega
        simp only [decodeF, hh]
        simp [hlt]
        omega
  | .float b, r, fuel, _, hf => by
    cases fuel with
    | zero => simp [size] at hf
    | succ f =>
      have hb : b.toNat < 256 ^ 8 := by have := b.toNat_lt; omega
      have := beVal_beBytes 8 b.toNat hb
      have hlen : ¬ (8 + r.length < 8) := by omega
      simp [encode, decodeF, readHead, beBytes_length, this, hlen]
  | .str s, r, fuel, hwf, hf => by
    cases fuel with
    | zero => simp [size] at hf
    | succ f =>
      obtain ⟨ai, hh, _, _⟩ := readHead_head 3 s.length (s ++ r) (by decide) hwf
      simp only [encode, List.append_assoc, decodeF, hh]
      simp
  | .bytes b, r, fuel, hwf, hf => by
    cases fuel with
    | zero => simp [size] at hf
    | succ f =>
      obtain ⟨ai, hh, _, _⟩ := readHead_head 2 b.length (b ++ r) (by decide) hwf
      simp only [encode, List.append_assoc, decodeF, hh]
      simp
  | .link c, r, fuel, hwf, hf => by
    cases fuel with
    | zero => simp [size] at hf
    | succ f =>
      obtain ⟨ai, hh, _, _⟩ := readHead_head 6 42 (head 2 (c.length + 1) ++ (0 :: c) ++ r) (by decide) (by decide)
      obtain ⟨ai2, hh2, _, _⟩ := readHead_head 2 (c.length + 1) ((0 :: c) ++ r) (by decide) hwf.1
      simp only [encode, List.append_assoc] at hh hh2 ⊢
      simp only [decodeF, hh]
      have h42 : ¬ ((42 : Nat) ≠ 42) := by decide
      simp only [List.cons_append] at hh2
      simp [hh2, hwf.2]
  | .list xs, r, fuel, hwf, hf => by
    cases fuel with
    | zero => simp [size] at hf
    | succ f =>
      simp only [WF] at hwf
      simp only [size] at hf
      obtain ⟨ai, hh, _, _⟩ := readHead_head 4 xs.length (encodeList xs ++ r) (by decide) hwf.1
      simp only [encode, List.append_assoc, decodeF, hh]
      simp [decodeList_encodeList xs r f hwf.2 (by omega)]
  | .map kvs, r, fuel, hwf, hf => by
    cases fuel with
    | zero => simp [size] at hf
    | succ f =>
      simp only [WF] at hwf
      simp only [size] at hf
      obtain ⟨ai, hh, _, _⟩ := readHead_head 5 kvs.length (encodeMap kvs ++ r) (by decide) hwf.1
      simp only [encode, List.append_assoc, decodeF, hh]
      simp [decodeMap_encodeMap kvs r f hwf.2 (by omega)]
theorem decodeList_encodeList : ∀ (xs : List Node) (r : Bytes) (fuel : Nat), WFL xs → sizeL xs ≤ fuel →
    decodeListF fuel xs.length (encodeList xs ++ r) = some (xs, r)
  | [], r, fuel, _, hf => by
    cases fuel with
    | zero => simp [sizeL] at hf
    | succ f => simp [encodeList, decodeListF]
  | x :: xs, r, fuel, hwf, hf => by
    cases fuel with
    | zero => simp [sizeL] at hf
    | succ f =>
      simp only [WFL] at hwf
      simp only [sizeL] at hf
      simp only [encodeList, List.append_assoc, List.length_cons, decodeListF]
      simp [decode_encode x _ f hwf.1 (by omega), decodeList_encodeList xs r f hwf.2 (by omega)]
theorem decodeMap_encodeMap : ∀ (kvs : List (Bytes × Node)) (r : Bytes) (fuel : Nat), WFM kvs → sizeM kvs ≤ fuel →
    decodeMapF fuel kvs.length (encodeMap kvs ++ r) = some (kvs, r)
  | [], r, fuel, _, hf => by
    cases fuel with
    | zero => simp [sizeM] at hf
    | succ f => simp [encodeMap, decodeMapF]
  | (k, v) :: kvs, r, fuel, hwf, hf => by
    cases fuel with
    | zero => simp [sizeM] at hf
    | succ f =>
      simp only [WFM] at hwf
      simp only [sizeM] at hf
      obtain ⟨ai, hh, _, _⟩ := readHead_head 3 k.length (k ++ (encode v ++ (encodeMap kvs ++ r))) (by decide) hwf.1
      simp only [encodeMap, List.append_assoc, List.length_cons, decodeMapF, hh]
      simp [decode_encode v _ f hwf.2.1 (by omega), decodeMap_encodeMap kvs r f hwf.2.2 (by omega)]
end

end Ucan.Cbor
