import Ucan.Model.Immut
/-! `args.Args.ToIPLD` builds ONE map from the arguments, with the keys sorted (a copy of the key slice is sorted with
`sort.Strings`, modelled by `Immut.sortKeys`). This file shows that the result does not depend on the order in which the
caller (or the argument hook) supplied the arguments: the byte order is a total order, the insertion sort returns the one
sorted arrangement of its input, and looking a key up in an association list with distinct keys does not depend on the
list's order. Used by C05 (a rule-conforming chain is accepted however the invoker put its arguments together). -/
set_option linter.unusedSimpArgs false
namespace Ucan.Immut
open Ucan

theorem bytesLe_refl : ∀ a : Bytes, bytesLe a a = true
  | [] => rfl
  | x :: xs => by simp [bytesLe, bytesLe_refl xs]

theorem bytesLe_total : ∀ a b : Bytes, bytesLe a b = true ∨ bytesLe b a = true
  | [], _ => Or.inl (by simp [bytesLe])
  | _ :: _, [] => Or.inr (by simp [bytesLe])
  | x :: xs, y :: ys => by
    simp only [bytesLe, Bool.or_eq_true, decide_eq_true_eq, Bool.and_eq_true, beq_iff_eq]
    rcases Nat.lt_trichotomy x.toNat y.toNat with h | h | h
    · exact Or.inl (Or.inl h)
    · have hxy : x = y := UInt8.toNat_inj.mp h
      rcases bytesLe_total xs ys with h' | h'
      · exact Or.inl (Or.inr ⟨hxy, h'⟩)
      · exact Or.inr (Or.inr ⟨hxy.symm, h'⟩)
    · exact Or.inr (Or.inl h)

theorem bytesLe_antisymm : ∀ a b : Bytes, bytesLe a b = true → bytesLe b a = true → a = b
  | [], [], _, _ => rfl
  | [], _ :: _, _, h => by simp [bytesLe] at h
  | _ :: _, [], h, _ => by simp [bytesLe] at h
  | x :: xs, y :: ys, h1, h2 => by
    simp only [bytesLe, Bool.or_eq_true, decide_eq_true_eq, Bool.and_eq_true, beq_iff_eq] at h1 h2
    rcases h1 with h1 | ⟨rfl, h1⟩
    · rcases h2 with h2 | ⟨rfl, _⟩
      · omega
      · omega
    · rcases h2 with h2 | ⟨_, h2⟩
      · omega
      · rw [bytesLe_antisymm xs ys h1 h2]

theorem bytesLe_trans : ∀ a b c : Bytes, bytesLe a b = true → bytesLe b c = true → bytesLe a c = true
  | [], _, _, _, _ => by simp [bytesLe]
  | _ :: _, [], _, h, _ => by simp [bytesLe] at h
  | _ :: _, _ :: _, [], _, h => by simp [bytesLe] at h
  | x :: xs, y :: ys, z :: zs, h1, h2 => by
    simp only [bytesLe, Bool.or_eq_true, decide_eq_true_eq, Bool.and_eq_true, beq_iff_eq] at h1 h2 ⊢
    rcases h1 with h1 | ⟨rfl, h1⟩
    · rcases h2 with h2 | ⟨rfl, _⟩
      · exact Or.inl (by omega)
      · exact Or.inl h1
    · rcases h2 with h2 | ⟨rfl, h2⟩
      · exact Or.inl h2
      · exact Or.inr ⟨rfl, bytesLe_trans xs ys zs h1 h2⟩

theorem insertSorted_perm (k : Bytes) : ∀ l : List Bytes, (insertSorted k l).Perm (k :: l)
  | [] => List.Perm.refl _
  | x :: xs => by
    unfold insertSorted
    split
    · exact List.Perm.refl _
    · exact ((insertSorted_perm k xs).cons x).trans (List.Perm.swap k x xs)

theorem sortKeys_perm : ∀ l : List Bytes, (sortKeys l).Perm l
  | [] => List.Perm.refl _
  | x :: xs => by
    show (insertSorted x (sortKeys xs)).Perm (x :: xs)
    exact (insertSorted_perm x _).trans ((sortKeys_perm xs).cons x)

theorem insertSorted_sorted (k : Bytes) : ∀ l : List Bytes, l.Pairwise (fun a b => bytesLe a b = true) →
    (insertSorted k l).Pairwise (fun a b => bytesLe a b = true)
  | [], _ => by simp [insertSorted]
  | x :: xs, h => by
    unfold insertSorted
    have hx := List.pairwise_cons.mp h
    split
    · rename_i hk
      refine List.pairwise_cons.mpr ⟨?_, h⟩
      intro b hb
      rcases List.mem_cons.mp hb with rfl | hb
      · exact hk
      · exact bytesLe_trans k x b hk (hx.1 b hb)
    · rename_i hk
      have hxk : bytesLe x k = true := by
        rcases bytesLe_total k x with h' | h'
        · exact absurd h' hk
        · exact h'
      refine List.pairwise_cons.mpr ⟨?_, insertSorted_sorted k xs hx.2⟩
      intro b hb
      rcases List.mem_cons.mp ((insertSorted_perm k xs).subset hb) with rfl | hb
      · exact hxk
      · exact hx.1 b hb

theorem sortKeys_sorted : ∀ l : List Bytes, (sortKeys l).Pairwise (fun a b => bytesLe a b = true)
  | [] => List.Pairwise.nil
  | x :: xs => insertSorted_sorted x _ (sortKeys_sorted xs)

/-- the sorted key list is a function of the SET of keys supplied, not of the order of supply -/
theorem sortKeys_eq_of_perm {l₁ l₂ : List Bytes} (h : l₁.Perm l₂) : sortKeys l₁ = sortKeys l₂ :=
  List.Perm.eq_of_pairwise (le := fun a b => bytesLe a b = true) (fun a b _ _ => bytesLe_antisymm a b)
    (sortKeys_sorted l₁) (sortKeys_sorted l₂) (((sortKeys_perm l₁).trans h).trans (sortKeys_perm l₂).symm)

/-- with distinct keys, looking a key up finds exactly the value stored with it -/
theorem lookup_eq_some_iff (k : Bytes) (v : Node) : ∀ kvs : List (Bytes × Node), (kvs.map (·.1)).Nodup →
    (Node.lookup k kvs = some v ↔ (k, v) ∈ kvs)
  | [], _ => by simp [Node.lookup]
  | (k', v') :: r, nd => by
    have nd' : k' ∉ r.map (·.1) ∧ (r.map (·.1)).Nodup := List.nodup_cons.mp nd
    unfold Node.lookup
    by_cases hk : k = k'
    · subst hk
      simp only [↓reduceIte, Option.some.injEq, List.mem_cons, Prod.mk.injEq, true_and]
      constructor
      · intro h; exact Or.inl h.symm
      · rintro (h | h)
        · exact h.symm
        · exact absurd (List.mem_map.mpr ⟨(k, v), h, rfl⟩) nd'.1
    · simp only [hk, ↓reduceIte, List.mem_cons, Prod.mk.injEq, false_and, false_or]
      exact lookup_eq_some_iff k v r nd'.2

theorem lookup_perm (k : Bytes) {kvs kvs' : List (Bytes × Node)} (h : kvs.Perm kvs') (nd : (kvs.map (·.1)).Nodup) :
    Node.lookup k kvs = Node.lookup k kvs' := by
  have nd' : (kvs'.map (·.1)).Nodup := (h.map (·.1)).nodup nd
  cases hl : Node.lookup k kvs with
  | some v =>
    exact ((lookup_eq_some_iff k v kvs' nd').mpr (h.subset ((lookup_eq_some_iff k v kvs nd).mp hl))).symm
  | none =>
    cases hl' : Node.lookup k kvs' with
    | none => rfl
    | some v =>
      have := (lookup_eq_some_iff k v kvs nd).mpr (h.symm.subset ((lookup_eq_some_iff k v kvs' nd').mp hl'))
      rw [hl] at this; cases this

/-- the node the policies are matched on does not depend on the order in which the arguments were supplied
(`args.Add` refuses a key that is already present, hence the distinct keys) -/
theorem argsNode_perm {kvs kvs' : List (Bytes × Node)} (h : kvs.Perm kvs') (nd : (kvs.map (·.1)).Nodup) :
    argsNode kvs = argsNode kvs' := by
  unfold argsNode
  rw [sortKeys_eq_of_perm (h.map (·.1))]
  congr 1
  have hf : (fun k => (Node.lookup k kvs).map (fun v => (k, v))) = (fun k => (Node.lookup k kvs').map (fun v => (k, v))) := by
    funext k
    rw [lookup_perm k h nd]
  rw [hf]

/-- its keys are in sorted order, and it holds exactly the entries supplied -/
theorem argsNode_sorted (kvs : List (Bytes × Node)) :
    ∃ out, argsNode kvs = .map out ∧ (out.map (·.1)).Pairwise (fun a b => bytesLe a b = true) := by
  refine ⟨_, rfl, ?_⟩
  have hs := sortKeys_sorted (kvs.map (·.1))
  generalize sortKeys (kvs.map (·.1)) = ks at hs
  induction ks with
  | nil => simp
  | cons k ks ih =>
    have hk := List.pairwise_cons.mp hs
    simp only [List.filterMap_cons]
    cases Node.lookup k kvs with
    | none => simpa using ih hk.2
    | some v =>
      simp only [Option.map_some, List.map_cons]
      refine List.pairwise_cons.mpr ⟨?_, ih hk.2⟩
      intro b hb
      obtain ⟨⟨k2, v2⟩, hm, rfl⟩ := List.mem_map.mp hb
      obtain ⟨k3, hk3, h3⟩ := List.mem_filterMap.mp hm
      cases hl : Node.lookup k3 kvs with
      | none => simp [hl] at h3
      | some v3 =>
        simp [hl] at h3
        exact h3.1 ▸ hk.1 k3 hk3

example : argsNode [([0x62], .int 2), ([0x61], .int 1)] = argsNode [([0x61], .int 1), ([0x62], .int 2)] := by
  simp [argsNode, sortKeys, insertSorted, bytesLe, Node.lookup]

end Ucan.Immut
