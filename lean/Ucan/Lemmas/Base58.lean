import Ucan.Model.Base58
/-! Positional-notation lemmas and the base-58 round trip `decode (encode b) = some b` (used by C16). -/
set_option linter.unusedSimpArgs false
namespace Ucan.Base58

theorem ofDigits_digitsLE (b : Nat) (hb : 2 ≤ b) : ∀ (fuel n : Nat), n ≤ fuel → ofDigitsLE b (digitsLE b fuel n) = n := by
  intro fuel
  induction fuel with
  | zero => intro n h; have : n = 0 := by omega
            subst this; simp [digitsLE, ofDigitsLE]
  | succ fuel ih =>
    intro n h
    by_cases hn : n = 0
    · subst hn; simp [digitsLE, ofDigitsLE]
    · have hdiv : n / b ≤ fuel := by
        have : n / b < n := Nat.div_lt_self (by omega) (by omega)
        omega
      simp only [digitsLE, hn, ↓reduceIte, ofDigitsLE, ih (n / b) hdiv]
      have := Nat.mod_add_div n b
      omega

theorem digitsLE_lt (b : Nat) (hb : 0 < b) : ∀ (fuel n : Nat), ∀ d ∈ digitsLE b fuel n, d < b := by
  intro fuel
  induction fuel with
  | zero => intro n d h; simp [digitsLE] at h
  | succ fuel ih =>
    intro n d h
    by_cases hn : n = 0
    · simp [digitsLE, hn] at h
    · simp only [digitsLE, hn, ↓reduceIte, List.mem_cons] at h
      rcases h with rfl | h
      · exact Nat.mod_lt _ hb
      · exact ih _ d h

/-- little-endian digits end in a non-zero digit (the number has no leading zero) -/
theorem digitsLE_last (b : Nat) (hb : 2 ≤ b) : ∀ (fuel n : Nat), n ≤ fuel → 0 < n →
    ∃ ds d, digitsLE b fuel n = ds ++ [d] ∧ d ≠ 0 := by
  intro fuel
  induction fuel with
  | zero => intro n h h0; omega
  | succ fuel ih =>
    intro n h h0
    have hn : n ≠ 0 := by omega
    simp only [digitsLE, hn, ↓reduceIte]
    by_cases hq : n / b = 0
    · refine ⟨[], n % b, ?_, ?_⟩
      · cases fuel <;> simp [digitsLE, hq]
      · have hlt : n < b := by
          rcases Nat.lt_or_ge n b with h' | h'
          · exact h'
          · have : 0 < n / b := Nat.div_pos h' (by omega)
            omega
        rw [Nat.mod_eq_of_lt hlt]; exact hn
    · have hdiv : n / b ≤ fuel := by
        have : n / b < n := Nat.div_lt_self (by omega) (by omega)
        omega
      obtain ⟨ds, d, h1, h2⟩ := ih (n / b) hdiv (Nat.pos_of_ne_zero hq)
      exact ⟨(n % b) :: ds, d, by rw [h1]; rfl, h2⟩

theorem ofDigitsLE_append_zeros (b : Nat) (ds : List Nat) (z : Nat) :
    ofDigitsLE b (ds ++ List.replicate z 0) = ofDigitsLE b ds := by
  induction ds with
  | nil =>
    induction z with
    | zero => rfl
    | succ z ih => simp only [List.nil_append] at ih; simp [List.replicate_succ, ofDigitsLE, ih]
  | cons d ds ih => simp [ofDigitsLE, ih]

theorem ofDigitsLE_pos (b : Nat) (hb : 0 < b) : ∀ (ds : List Nat) (d : Nat), d ≠ 0 → 0 < ofDigitsLE b (ds ++ [d]) := by
  intro ds
  induction ds with
  | nil => intro d hd; simp [ofDigitsLE]; omega
  | cons x ds ih =>
    intro d hd
    have := ih d hd
    simp only [List.cons_append, ofDigitsLE]
    have : 0 < b * ofDigitsLE b (ds ++ [d]) := Nat.mul_pos hb this
    omega

/-- digits that are in range and end in a non-zero digit are THE digits of their value -/
theorem digitsLE_ofDigits (b : Nat) (hb : 2 ≤ b) : ∀ (ds : List Nat) (d : Nat) (fuel : Nat),
    (∀ x ∈ ds ++ [d], x < b) → d ≠ 0 → ofDigitsLE b (ds ++ [d]) ≤ fuel →
    digitsLE b fuel (ofDigitsLE b (ds ++ [d])) = ds ++ [d] := by
  intro ds
  induction ds with
  | nil =>
    intro d fuel hlt hd hf
    have hdb : d < b := hlt d (by simp)
    simp only [List.nil_append, ofDigitsLE, Nat.mul_zero, Nat.add_zero] at hf ⊢
    cases fuel with
    | zero => omega
    | succ fuel =>
      have hq : d / b = 0 := Nat.div_eq_of_lt hdb
      simp only [digitsLE, hd, ↓reduceIte, Nat.mod_eq_of_lt hdb, hq]
      cases fuel <;> simp [digitsLE]
  | cons x ds ih =>
    intro d fuel hlt hd hf
    have hxb : x < b := hlt x (by simp)
    have hpos := ofDigitsLE_pos b (by omega) ds d hd
    simp only [List.cons_append, ofDigitsLE] at hf ⊢
    have hne : x + b * ofDigitsLE b (ds ++ [d]) ≠ 0 := by
      have : 0 < b * ofDigitsLE b (ds ++ [d]) := Nat.mul_pos (by omega) hpos
      omega
    cases fuel with
    | zero => omega
    | succ fuel =>
      have hmod : (x + b * ofDigitsLE b (ds ++ [d])) % b = x := by
        rw [Nat.add_mul_mod_self_left, Nat.mod_eq_of_lt hxb]
      have hdiv : (x + b * ofDigitsLE b (ds ++ [d])) / b = ofDigitsLE b (ds ++ [d]) := by
        rw [Nat.add_mul_div_left _ _ (by omega : 0 < b), Nat.div_eq_of_lt hxb, Nat.zero_add]
      simp only [digitsLE, hne, ↓reduceIte, hmod, hdiv]
      have hle : ofDigitsLE b (ds ++ [d]) ≤ fuel := by
        have : 2 * ofDigitsLE b (ds ++ [d]) ≤ b * ofDigitsLE b (ds ++ [d]) := Nat.mul_le_mul_right _ hb
        omega
      rw [ih d fuel (fun y hy => hlt y (by simp at hy ⊢; right; exact hy)) hd hle]

end Ucan.Base58

namespace Ucan.Base58

theorem index_char : ∀ d, d < 58 → indexOf (charOf d) = some d := by decide +kernel
theorem char_ne_one : ∀ d, d < 58 → d ≠ 0 → charOf d ≠ one := by decide +kernel
theorem index_one : indexOf one = some 0 := by decide

theorem mapM_index_chars (ds : List Nat) (h : ∀ d ∈ ds, d < 58) : (ds.map charOf).mapM indexOf = some ds := by
  induction ds with
  | nil => rfl
  | cons d ds ih =>
    have h1 := index_char d (h d (by simp))
    have h2 := ih (fun x hx => h x (by simp [hx]))
    simp [List.mapM_cons, h1, h2]

theorem mapM_index_ones (z : Nat) : (List.replicate z one).mapM indexOf = some (List.replicate z 0) := by
  induction z with
  | zero => rfl
  | succ z ih => simp [List.replicate_succ, List.mapM_cons, index_one, ih]

theorem mapM_append {α β} (f : α → Option β) (xs ys : List α) (a b : List β)
    (h1 : xs.mapM f = some a) (h2 : ys.mapM f = some b) : (xs ++ ys).mapM f = some (a ++ b) := by
  induction xs generalizing a with
  | nil => simp at h1; subst h1; simpa using h2
  | cons x xs ih =>
    simp only [List.mapM_cons] at h1
    cases hx : f x with
    | none => simp [hx] at h1
    | some y =>
      cases hm : xs.mapM f with
      | none => simp [hx, hm] at h1
      | some a' =>
        simp [hx, hm] at h1
        subst h1
        simp [List.mapM_cons, hx, ih a' hm]

theorem takeWhile_replicate_append {α} [BEq α] [LawfulBEq α] (x : α) (z : Nat) (ys : List α)
    (h : ∀ y, ys.head? = some y → (y == x) = false) :
    ((List.replicate z x ++ ys).takeWhile (· == x)).length = z := by
  induction z with
  | zero =>
    cases ys with
    | nil => rfl
    | cons y ys => simp [List.takeWhile, h y rfl]
  | succ z ih =>
    simp only [List.replicate_succ, List.cons_append, List.takeWhile, beq_self_eq_true, List.length_cons]
    rw [ih]

/-- a byte string is its leading zero bytes followed by a rest that does not start with zero -/
theorem split_zeros (b : Bytes) :
    b = List.replicate (leadingZeros b) 0 ++ b.dropWhile (· == 0) ∧
      (∀ y, (b.dropWhile (· == 0)).head? = some y → y ≠ 0) := by
  induction b with
  | nil => simp [leadingZeros]
  | cons x b ih =>
    by_cases hx : x = 0
    · subst hx
      simp only [leadingZeros, List.takeWhile, beq_self_eq_true, List.length_cons, List.replicate_succ, List.dropWhile,
        List.cons_append]
      exact ⟨congrArg (List.cons 0) ih.1, ih.2⟩
    · have : (x == 0) = false := by simpa using hx
      simp [leadingZeros, List.takeWhile, List.dropWhile, this, hx]

end Ucan.Base58

namespace Ucan.Base58

theorem map_ofNat_toNat (r : Bytes) : (r.map UInt8.toNat).map UInt8.ofNat = r := by
  induction r with
  | nil => rfl
  | cons x r ih => simp [ih]

/-- the digits of a rest that does not start with zero are recovered from its value -/
theorem digitsBE_bytes (r : Bytes) (h : ∀ y, r.head? = some y → y ≠ 0) :
    digitsBE 256 (ofDigitsBE 256 (r.map UInt8.toNat)) = r.map UInt8.toNat := by
  cases r with
  | nil => simp [digitsBE, ofDigitsBE, ofDigitsLE, digitsLE]
  | cons y r =>
    have hy : y ≠ 0 := h y rfl
    have hy' : y.toNat ≠ 0 := by
      intro e; apply hy; exact UInt8.toNat_inj.mp (by simpa using e)
    unfold digitsBE ofDigitsBE
    simp only [List.map_cons, List.reverse_cons]
    rw [digitsLE_ofDigits 256 (by omega) ((r.map UInt8.toNat).reverse) y.toNat _ ?_ hy' (Nat.le_refl _)]
    · simp
    · intro x hx
      simp only [List.mem_append, List.mem_reverse, List.mem_map, List.mem_singleton] at hx
      rcases hx with ⟨b, _, rfl⟩ | rfl
      · exact UInt8.toNat_lt b
      · exact UInt8.toNat_lt y

/-- base-58: what was encoded is what is decoded, leading zero bytes included -/
theorem decode_encode (b : Bytes) : decode (encode b) = some b := by
  obtain ⟨hsplit, hhead⟩ := split_zeros b
  generalize hz : leadingZeros b = z at hsplit
  generalize hR : b.dropWhile (· == 0) = R at hsplit hhead
  -- the number
  have hval : ofDigitsBE 256 (b.map UInt8.toNat) = ofDigitsBE 256 (R.map UInt8.toNat) := by
    rw [hsplit]
    unfold ofDigitsBE
    simp only [List.map_append, List.map_replicate, List.reverse_append, List.reverse_replicate]
    exact ofDigitsLE_append_zeros 256 _ z
  let n := ofDigitsBE 256 (R.map UInt8.toNat)
  have hdig58 : ∀ d ∈ digitsBE 58 n, d < 58 := by
    intro d hd
    exact digitsLE_lt 58 (by omega) n n d (by simpa [digitsBE] using hd)
  -- the text
  have henc : encode b = List.replicate z one ++ (digitsBE 58 n).map charOf := by
    unfold encode; rw [hz, hval]
  rw [henc]
  unfold decode
  rw [mapM_append indexOf _ _ _ _ (mapM_index_ones z) (mapM_index_chars _ hdig58)]
  -- the number of leading '1's is z: the first digit of n is not zero
  have hfirst : ∀ y, ((digitsBE 58 n).map charOf).head? = some y → (y == one) = false := by
    intro y hy
    by_cases hn : n = 0
    · simp [digitsBE, hn, digitsLE] at hy
    · obtain ⟨ds, d, h1, h2⟩ := digitsLE_last 58 (by omega) n n (Nat.le_refl _) (Nat.pos_of_ne_zero hn)
      have hdlt : d < 58 := digitsLE_lt 58 (by omega) n n d (by rw [h1]; simp)
      simp only [digitsBE, h1, List.reverse_append, List.reverse_cons, List.reverse_nil, List.nil_append, List.cons_append,
        List.map_cons, List.head?_cons, Option.some.injEq] at hy
      subst hy
      simpa using char_ne_one d hdlt h2
  simp only [takeWhile_replicate_append one z _ hfirst]
  -- the value read back is n
  have hback : ofDigitsBE 58 (List.replicate z 0 ++ digitsBE 58 n) = n := by
    unfold ofDigitsBE digitsBE
    simp only [List.reverse_append, List.reverse_reverse, List.reverse_replicate]
    rw [ofDigitsLE_append_zeros, ofDigits_digitsLE 58 (by omega) n n (Nat.le_refl _)]
  rw [hback]
  show some (List.replicate z 0 ++ (digitsBE 256 (ofDigitsBE 256 (R.map UInt8.toNat))).map UInt8.ofNat) = some b
  rw [digitsBE_bytes R hhead, map_ofNat_toNat, ← hsplit]

/-- hence the encoder is injective -/
theorem encode_injective (a b : Bytes) (h : encode a = encode b) : a = b := by
  have := decode_encode a
  rw [h, decode_encode b] at this
  exact (Option.some.inj this).symm

end Ucan.Base58
