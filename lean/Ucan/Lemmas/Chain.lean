import Ucan.Spec.Chain
import Ucan.Lemmas.Policy
/-! Helper lemmas for C01–C05: the running-issuer loop and its declarative reading. -/
namespace Ucan.Chain
open Ucan.Policy

set_option linter.unusedSectionVars false
set_option linter.unusedSimpArgs false
variable {D C X : Type} [DecidableEq D]

/-- recursive reading of the loop: each link was issued to the running issuer and covers the running command -/
def Aligned : D → Bytes → List (Dlg D) → Prop
  | _, _, [] => True
  | iss, cmd, d :: ds => d.aud = iss ∧ Command.covers d.cmd cmd = true ∧ Aligned d.iss d.cmd ds

theorem proofLoop_ok_iff (sub : D) (iss : D) (cmd : Bytes) (ds : List (Dlg D)) :
    proofLoop sub iss cmd ds = .ok () ↔ (∀ d ∈ ds, d.sub = some sub) ∧ Aligned iss cmd ds := by
  induction ds generalizing iss cmd with
  | nil => simp [proofLoop, Aligned]
  | cons d ds ih =>
    unfold proofLoop Aligned
    by_cases h1 : d.sub = some sub
    · by_cases h2 : d.aud = iss
      · by_cases h3 : Command.covers d.cmd cmd = true
        · simp only [h1, h2, h3, ne_eq, not_true_eq_false, if_false, true_and]
          rw [ih]
          constructor
          · rintro ⟨a, b⟩
            exact ⟨fun x hx => by rcases List.mem_cons.1 hx with rfl | hx; exact h1; exact a x hx, b⟩
          · rintro ⟨a, b⟩
            exact ⟨fun x hx => a x (List.mem_cons_of_mem _ hx), b⟩
        · simp only [h1, h2, h3, ne_eq, not_true_eq_false, if_false, not_false_eq_true, if_true]
          simp
      · simp only [h1, h2, ne_eq, not_true_eq_false, if_false, not_false_eq_true, if_true]
        simp
    · simp only [h1, ne_eq, not_false_eq_true, if_true]
      constructor
      · intro h; cases h
      · rintro ⟨a, _⟩; exact absurd (a d List.mem_cons_self) h1

/-- index form of `Aligned` -/
theorem aligned_iff_index (iss : D) (cmd : Bytes) (ds : List (Dlg D)) :
    Aligned iss cmd ds ↔
      (∀ d, ds.head? = some d → d.aud = iss ∧ Command.covers d.cmd cmd = true) ∧
      (∀ i (h : i + 1 < ds.length), ds[i].iss = ds[i + 1].aud ∧ Command.covers ds[i + 1].cmd ds[i].cmd = true) := by
  induction ds generalizing iss cmd with
  | nil => simp [Aligned]
  | cons d ds ih =>
    unfold Aligned
    rw [ih]
    constructor
    · rintro ⟨h1, h2, h3, h4⟩
      refine ⟨fun x hx => by simp at hx; subst hx; exact ⟨h1, h2⟩, ?_⟩
      intro i hi
      cases i with
      | zero =>
        cases ds with
        | nil => simp at hi
        | cons e es =>
          have := h3 e rfl
          exact ⟨this.1.symm, this.2⟩
      | succ j =>
        have hj : j + 1 < ds.length := by simpa using hi
        simpa using h4 j hj
    · rintro ⟨h1, h2⟩
      have h0 := h1 d rfl
      refine ⟨h0.1, h0.2, ?_, ?_⟩
      · intro e he
        cases ds with
        | nil => simp at he
        | cons e' es =>
          simp at he; subst he
          have := h2 0 (by simp)
          exact ⟨this.1.symm, this.2⟩
      · intro i hi
        have := h2 (i + 1) (by simpa using hi)
        simpa using this

theorem loadProofs_length (ld : C → Option (Dlg D)) (cs : List C) (ds : List (Dlg D))
    (h : loadProofs ld cs = .ok ds) : ds.length = cs.length ∧ ∀ i (h1 : i < cs.length) (h2 : i < ds.length), ld cs[i] = some ds[i] := by
  induction cs generalizing ds with
  | nil => simp [loadProofs] at h; subst h; simp
  | cons c cs ih =>
    unfold loadProofs at h
    cases hc : ld c with
    | none => simp [hc] at h
    | some d =>
      simp only [hc] at h
      cases hr : loadProofs ld cs with
      | error e => simp [hr] at h
      | ok ds' =>
        simp only [hr] at h
        cases h
        obtain ⟨l, g⟩ := ih ds' hr
        refine ⟨by simp [l], ?_⟩
        intro i h1 h2
        cases i with
        | zero => simpa using hc
        | succ j => simpa using g j (by simpa using h1) (by simpa using h2)

theorem loadProofs_ok_of_all (ld : C → Option (Dlg D)) (cs : List C)
    (h : ∀ c ∈ cs, (ld c).isSome) : ∃ ds, loadProofs ld cs = .ok ds := by
  induction cs with
  | nil => exact ⟨[], rfl⟩
  | cons c cs ih =>
    obtain ⟨ds, hds⟩ := ih (fun x hx => h x (List.mem_cons_of_mem _ hx))
    have hc := h c List.mem_cons_self
    cases hl : ld c with
    | none => simp [hl] at hc
    | some d => exact ⟨d :: ds, by simp [loadProofs, hl, hds]⟩

theorem dlg_validAt_iff (d : Dlg D) (t : Int) : d.validAt t = true ↔ InsideWindow d.nbf d.exp t := by
  unfold Dlg.validAt InsideWindow afterBound beforeBound
  cases d.exp <;> cases d.nbf <;> simp <;> omega

theorem inv_validAt_iff (inv : Inv D C X) (t : Int) : inv.validAt t = true ↔ InsideWindow none inv.exp t := by
  unfold Inv.validAt InsideWindow afterBound
  cases inv.exp <;> simp

theorem match_flatten_iff (pols : List (List Stmt)) (n : Node) :
    Match pols.flatten n = true ↔ ∀ p ∈ pols, ∀ s ∈ p, (matchStmt s n).passes = true := by
  have single : ∀ p : List Stmt, Match p n = true ↔ ∀ s ∈ p, (matchStmt s n).passes = true := by
    intro p
    induction p with
    | nil => simp [Match]
    | cons s p ih =>
      simp only [Match, List.mem_cons, forall_eq_or_imp]
      cases hs : matchStmt s n <;> simp [Res.passes, ih]
  induction pols with
  | nil => simp [Match]
  | cons p pols ih =>
    have hap : Match (p ++ pols.flatten) n = (Match p n && Match pols.flatten n) := by
      induction p with
      | nil => simp [Match]
      | cons s p ihp =>
        simp only [List.cons_append, Match]
        cases matchStmt s n <;> simp [ihp]
    rw [List.flatten_cons, hap, Bool.and_eq_true]
    constructor
    · rintro ⟨h1, h2⟩ q hq
      rcases List.mem_cons.1 hq with rfl | hq
      · exact (single _).1 h1
      · exact ih.1 h2 q hq
    · intro h
      exact ⟨(single p).2 (h p List.mem_cons_self), ih.2 (fun q hq => h q (List.mem_cons_of_mem _ hq))⟩

end Ucan.Chain
