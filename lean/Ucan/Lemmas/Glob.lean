import Ucan.Spec.Glob
/-! Proof that the one-backtrack-point matcher decides the glob language (C13). -/
namespace Ucan.Glob

theorem matchSpec_star (ps : List Tok) (s : Bytes) :
    matchSpec (.star :: ps) s =
      (matchSpec ps s || match s with | [] => false | _ :: s' => matchSpec (.star :: ps) s') := by
  cases s with
  | nil => simp [matchSpec]
  | cons c s => simp [matchSpec]

theorem star_absorb (ps : List Tok) (x t : Bytes) (h : matchSpec (.star :: ps) t = true) :
    matchSpec (.star :: ps) (x ++ t) = true := by
  induction x with
  | nil => simpa using h
  | cons c x ih => rw [List.cons_append, matchSpec_star]; simp [ih]

theorem star_of_suffix (ps : List Tok) {t s : Bytes} (hs : t <:+ s) (h : matchSpec ps t = true) :
    matchSpec (.star :: ps) s = true := by
  obtain ⟨x, rfl⟩ := hs
  apply star_absorb
  rw [matchSpec_star]; simp [h]

theorem star_exists_suffix (ps : List Tok) (s : Bytes) (h : matchSpec (.star :: ps) s = true) :
    ∃ t, t <:+ s ∧ matchSpec ps t = true := by
  induction s with
  | nil => rw [matchSpec_star] at h; simp at h; exact ⟨[], List.suffix_refl _, h⟩
  | cons c s ih =>
    rw [matchSpec_star] at h
    simp only [Bool.or_eq_true] at h
    rcases h with h | h
    · exact ⟨c :: s, List.suffix_refl _, h⟩
    · obtain ⟨t, ht, hm⟩ := ih h
      exact ⟨t, ht.trans (List.suffix_cons c s), hm⟩

/-- number of leading literal tokens -/
def litLen : List Tok → Nat
  | .lit _ :: ps => litLen ps + 1
  | _ => 0

theorem litLen_le_of_match : ∀ (ps : List Tok) (t : Bytes), matchSpec ps t = true → litLen ps ≤ t.length
  | [], _, _ => by simp [litLen]
  | .star :: _, _, _ => by simp [litLen]
  | .lit a :: ps, [], h => by simp [matchSpec] at h
  | .lit a :: ps, c :: t, h => by
      simp only [matchSpec, Bool.and_eq_true] at h
      have := litLen_le_of_match ps t h.2
      simp [litLen]; omega

theorem litRun_done {bp : List Tok} {bs : Bytes} {b : Bool} (h : litRun bp bs = .done b) :
    matchSpec bp bs = b ∧ bs.length ≤ litLen bp := by
  induction bp generalizing bs with
  | nil =>
    cases bs with
    | nil => simp [litRun, allStar] at h; simp [matchSpec, ← h]
    | cons c s => simp [litRun] at h
  | cons t bp ih =>
    cases bs with
    | nil =>
      simp only [litRun, Outcome.done.injEq] at h
      refine ⟨?_, by simp⟩
      subst h
      -- matchSpec (t :: bp) [] = allStar (t :: bp)
      clear ih
      induction bp generalizing t with
      | nil => cases t <;> simp [matchSpec, allStar]
      | cons t' bp ih' => cases t with
        | lit a => simp [matchSpec, allStar]
        | star => simp only [matchSpec, allStar]; exact ih' t'
    | cons c s =>
      cases t with
      | star => simp [litRun] at h
      | lit a =>
        simp only [litRun] at h
        split at h
        · rename_i hac
          have := ih h
          simp [matchSpec, hac, this.1, litLen]; omega
        · cases h

theorem litRun_fail {bp : List Tok} {bs : Bytes} (h : litRun bp bs = .fail) : matchSpec bp bs = false := by
  induction bp generalizing bs with
  | nil =>
    cases bs with
    | nil => simp [litRun] at h
    | cons c s => simp [matchSpec]
  | cons t bp ih =>
    cases bs with
    | nil => simp [litRun] at h
    | cons c s =>
      cases t with
      | star => simp [litRun] at h
      | lit a =>
        simp only [litRun] at h
        split at h
        · simp [matchSpec, ih h]
        · rename_i hac; simp [matchSpec, hac]

theorem litRun_star_zero {bp ps' : List Tok} {bs s' : Bytes} (h : litRun bp bs = .star ps' s') :
    matchSpec bp bs = matchSpec (.star :: ps') s' := by
  induction bp generalizing bs with
  | nil => cases bs <;> simp [litRun] at h
  | cons t bp ih =>
    cases bs with
    | nil => simp [litRun] at h
    | cons c s =>
      cases t with
      | star => simp [litRun] at h; obtain ⟨rfl, rfl⟩ := h; rfl
      | lit a =>
        simp only [litRun] at h
        split at h
        · rename_i hac; simp [matchSpec, hac, ih h]
        · cases h

theorem suffix_tail_of_cons {α} {c' c : α} {t' s : List α} (h : c' :: t' <:+ c :: s) : t' <:+ s := by
  rcases List.suffix_cons_iff.mp h with h | h
  · cases h; exact List.suffix_refl _
  · exact (List.suffix_cons c' t').trans h

theorem litRun_star_any {bp ps' : List Tok} {bs s' : Bytes} (h : litRun bp bs = .star ps' s')
    {t : Bytes} (ht : t <:+ bs) (hm : matchSpec bp t = true) : matchSpec (.star :: ps') s' = true := by
  induction bp generalizing bs t with
  | nil => cases bs <;> simp [litRun] at h
  | cons tk bp ih =>
    cases bs with
    | nil => simp [litRun] at h
    | cons c s =>
      cases tk with
      | star =>
        simp [litRun] at h; obtain ⟨rfl, rfl⟩ := h
        obtain ⟨x, hx⟩ := ht
        rw [← hx]; exact star_absorb _ _ _ hm
      | lit a =>
        simp only [litRun] at h
        split at h
        · cases t with
          | nil => simp [matchSpec] at hm
          | cons c' t' =>
            simp only [matchSpec, Bool.and_eq_true] at hm
            exact ih h (suffix_tail_of_cons ht) hm.2
        · cases h

theorem scan_eq (bp : List Tok) (bs : Bytes) : scan bp bs = matchSpec (.star :: bp) bs := by
  fun_induction scan bp bs with
  | case1 bp bs b h =>
    have ⟨h1, h2⟩ := litRun_done h
    cases hb : matchSpec (.star :: bp) bs with
    | true =>
      obtain ⟨t, ht, hm⟩ := star_exists_suffix _ _ hb
      have hl := litLen_le_of_match _ _ hm
      have : t = bs := by
        apply List.IsSuffix.eq_of_length_le ht; omega
      subst this; rw [← h1, hm]
    | false =>
      cases b with
      | false => rfl
      | true => rw [star_of_suffix bp (List.suffix_refl bs) h1] at hb; cases hb
  | case2 bp bs ps' s' h ih =>
    rw [ih]
    cases hb : matchSpec (.star :: bp) bs with
    | true =>
      obtain ⟨t, ht, hm⟩ := star_exists_suffix _ _ hb
      exact litRun_star_any h ht hm
    | false =>
      cases hc : matchSpec (.star :: ps') s' with
      | false => rfl
      | true =>
        rw [← litRun_star_zero h] at hc
        rw [star_of_suffix bp (List.suffix_refl bs) hc] at hb; cases hb
  | case3 bp h =>
    rw [matchSpec_star]; simp [litRun_fail h]
  | case4 bp c bs' h ih =>
    rw [matchSpec_star]; simp [litRun_fail h, ih]

end Ucan.Glob
