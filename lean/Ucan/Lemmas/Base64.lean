import Ucan.Model.Base64
/-! `Base64.decode (Base64.encode b) = some b` (used by C17 for the two base64 container variants). -/
set_option linter.unusedSimpArgs false
namespace Ucan.Base64

theorem val6_enc6 : ∀ n, n < 64 → val6 (enc6 n) = some n := by decide +kernel
theorem enc6_ne_pad : ∀ n, n < 64 → enc6 n ≠ pad := by decide +kernel

theorem byte1 (a : UInt8) (y : Nat) (hy : y / 16 = a.toNat % 4) : mk1 (a.toNat / 4) y = a := by
  have ha := UInt8.toNat_lt a
  have : a.toNat / 4 * 4 + y / 16 = a.toNat := by omega
  unfold mk1; rw [this]; simp

theorem byte2 (b : UInt8) (y z : Nat) (hy : y % 16 = b.toNat / 16) (hz : z / 4 = b.toNat % 16) : mk2 y z = b := by
  have hb := UInt8.toNat_lt b
  have : y % 16 * 16 + z / 4 = b.toNat := by omega
  unfold mk2; rw [this]; simp

theorem byte3 (c : UInt8) (z w : Nat) (hz : z % 4 = c.toNat / 64) (hw : w = c.toNat % 64) : mk3 z w = c := by
  have hc := UInt8.toNat_lt c
  have : z % 4 * 64 + w = c.toNat := by omega
  unfold mk3; rw [this]; simp

theorem decode_encode : ∀ b : Bytes, decode (encode b) = some b
  | [] => by simp [encode, decode]
  | [a] => by
    have ha := UInt8.toNat_lt a
    have h1 : a.toNat / 4 < 64 := by omega
    have h2 : a.toNat % 4 * 16 < 64 := by omega
    have e0 : ¬ (a.toNat % 4 * 16 % 16 ≠ 0) := by omega
    have e1 := byte1 a (a.toNat % 4 * 16) (by omega)
    simp only [encode, decode, val6_enc6 _ h1, val6_enc6 _ h2, and_self, ↓reduceIte, e0, e1]
  | [a, b] => by
    have ha := UInt8.toNat_lt a; have hb := UInt8.toNat_lt b
    have h1 : a.toNat / 4 < 64 := by omega
    have h2 : a.toNat % 4 * 16 + b.toNat / 16 < 64 := by omega
    have h3 : b.toNat % 16 * 4 < 64 := by omega
    have n3 := enc6_ne_pad _ h3
    have e0 : ¬ (b.toNat % 16 * 4 % 4 ≠ 0) := by omega
    have e1 := byte1 a (a.toNat % 4 * 16 + b.toNat / 16) (by omega)
    have e2 := byte2 b (a.toNat % 4 * 16 + b.toNat / 16) (b.toNat % 16 * 4) (by omega) (by omega)
    simp only [encode, decode, val6_enc6 _ h1, val6_enc6 _ h2, val6_enc6 _ h3, n3, false_and, and_self, ↓reduceIte, e0, e1, e2]
  | a :: b :: c :: rest => by
    have ha := UInt8.toNat_lt a; have hb := UInt8.toNat_lt b; have hc := UInt8.toNat_lt c
    have h1 : a.toNat / 4 < 64 := by omega
    have h2 : a.toNat % 4 * 16 + b.toNat / 16 < 64 := by omega
    have h3 : b.toNat % 16 * 4 + c.toNat / 64 < 64 := by omega
    have h4 : c.toNat % 64 < 64 := by omega
    have n3 := enc6_ne_pad _ h3
    have n4 := enc6_ne_pad _ h4
    have ih := decode_encode rest
    have e1 := byte1 a (a.toNat % 4 * 16 + b.toNat / 16) (by omega)
    have e2 := byte2 b (a.toNat % 4 * 16 + b.toNat / 16) (b.toNat % 16 * 4 + c.toNat / 64) (by omega) (by omega)
    have e3 := byte3 c (b.toNat % 16 * 4 + c.toNat / 64) (c.toNat % 64) (by omega) rfl
    simp only [encode, decode, val6_enc6 _ h1, val6_enc6 _ h2, val6_enc6 _ h3, val6_enc6 _ h4, n3, n4, false_and, ↓reduceIte, ih, e1, e2, e3]

theorem encode_injective (a b : Bytes) (h : encode a = encode b) : a = b := by
  have := decode_encode a
  rw [h, decode_encode b] at this
  exact (Option.some.inj this).symm

end Ucan.Base64
