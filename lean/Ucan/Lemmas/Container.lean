import Ucan.Model.Container
/-! Framing lemmas for C17/C18. -/
set_option linter.unusedSimpArgs false
namespace Ucan.Container

theorem putUvarint_length_pos (n : Nat) : 0 < (putUvarint n).length := by
  unfold putUvarint; split <;> simp

theorem readUvarint_put_succ (f n : Nat) (r : Bytes) (h : n < 128 ^ (f + 1)) :
    readUvarint (f + 1) (putUvarint n ++ r) = some (n, r) := by
  induction f generalizing n with
  | zero =>
    have hn : n < 128 := by simpa using h
    unfold putUvarint
    have : n % 256 = n := by omega
    simp [hn, readUvarint, UInt8.toNat_ofNat', this]
  | succ f ih =>
    unfold putUvarint
    by_cases hn : n < 128
    · have : n % 256 = n := by omega
      simp [hn, readUvarint, UInt8.toNat_ofNat', this]
    · simp only [hn, if_false, List.cons_append, readUvarint, UInt8.toNat_ofNat']
      have h1 : (n % 128 + 128) % 256 = n % 128 + 128 := by omega
      have h2 : ¬ (n % 128 + 128 < 128) := by omega
      have h3 : n / 128 < 128 ^ (f + 1) := by
        rw [Nat.pow_succ] at h
        exact Nat.div_lt_of_lt_mul (by rw [Nat.mul_comm]; exact h)
      rw [h1, if_neg h2, ih (n / 128) h3]
      simp only [Option.some.injEq, Prod.mk.injEq, and_true]
      omega

theorem readUvarint_put (n : Nat) (r : Bytes) (h : n ≤ maxSection) :
    readUvarint 10 (putUvarint n ++ r) = some (n, r) :=
  readUvarint_put_succ 9 n r (by unfold maxSection at h; omega)

/-- a section that was written is read back, whatever follows and however the source ends -/
theorem ldRead_ldWrite (e : Ending) (d r : Bytes) (h0 : d ≠ []) (hmax : d.length ≤ maxSection) :
    ldRead e (ldWrite d ++ r) = .section d r := by
  unfold ldRead ldWrite
  have hne : putUvarint d.length ++ d ++ r ≠ [] := by
    have hpos := putUvarint_length_pos d.length
    intro h
    have h' := congrArg List.length h
    simp only [List.length_append, List.length_nil] at h'
    omega
  split
  · rename_i heq; exact absurd heq hne
  · rw [List.append_assoc, readUvarint_put _ _ hmax]
    have hl : ¬ d.length = 0 := by
      intro h; exact h0 (List.length_eq_zero_iff.1 h)
    have h2 : ¬ d.length > maxSection := by omega
    have h3 : ¬ (d ++ r).length < d.length := by simp
    simp only [hl, h2, h3, if_false]
    simp

/-- a proper, non-empty prefix of a varint still has its continuation bit set: it does not read -/
theorem readUvarint_proper_prefix (fuel n : Nat) (p s : Bytes) (hs : s ≠ []) (hp : p ++ s = putUvarint n) :
    readUvarint fuel p = none := by
  induction fuel generalizing n p with
  | zero => rfl
  | succ f ih =>
    cases p with
    | nil => rfl
    | cons b p' =>
      unfold putUvarint at hp
      by_cases hn : n < 128
      · simp only [hn, if_true] at hp
        have hl := congrArg List.length hp
        simp only [List.length_cons, List.length_append, List.length_nil] at hl
        have hs0 : s.length = 0 := by omega
        exact absurd (List.length_eq_zero_iff.1 hs0) hs
      · simp only [hn, if_false, List.cons_append, List.cons.injEq] at hp
        obtain ⟨hb, hrest⟩ := hp
        subst hb
        have hbn : ¬ ((UInt8.ofNat (n % 128 + 128)).toNat < 128) := by
          rw [UInt8.toNat_ofNat']; omega
        simp only [readUvarint, hbn, if_false]
        rw [ih (n / 128) p' hrest]

end Ucan.Container
