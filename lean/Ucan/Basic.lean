/-
Shared basic types for all models. Core Lean only (the driver links against this).
-/
namespace Ucan

abbrev Byte := UInt8
abbrev Bytes := List UInt8

end Ucan
