import Ucan.Driver.Command
import Ucan.Driver.Glob
import Ucan.Driver.Selector
import Ucan.Driver.Policy
import Ucan.Driver.Chain
import Ucan.Driver.Cbor
import Ucan.Driver.Did
import Ucan.Driver.Token
import Ucan.Driver.Container
import Ucan.Driver.Meta
import Ucan.Driver.Immut
import Ucan.Driver.CidStream
/-!
Line-protocol driver: one case per input line, one canonical answer per output line.
Imports models and specs only (core Lean), never lemmas or property files.
-/
open Ucan.Driver

def dispatch (toks : List String) : String :=
  let r :=
    match toks with
    | [] => none
    | t :: _ =>
      if t.startsWith "cmd." then runCommand toks
      else if t.startsWith "glob." then runGlob toks
      else if t.startsWith "sel." then runSelector toks
      else if t.startsWith "pol." then runPolicy toks
      else if t.startsWith "chain." then runChain toks
      else if t.startsWith "cbor." || t.startsWith "sealed." then runCbor toks
      else if t.startsWith "did." then runDid toks
      else if t.startsWith "tok." then runToken toks
      else if t.startsWith "ctn." then runContainer toks
      else if t.startsWith "meta." then runMeta toks
      else if t.startsWith "imm." then runImmut toks
      else if t.startsWith "cids." then runCidStream toks
      else if t.startsWith "go." then some "ok"   -- Go-side oracle checks: the model has nothing to add
      else none
  match r with
  | some s => s
  | none => "bad-op"

partial def loop (hin hout : IO.FS.Stream) : IO Unit := do
  let line ← hin.getLine
  if line.isEmpty then return ()
  let toks := (line.trimAscii.toString.splitOn " ").filter (· ≠ "")
  hout.putStrLn (dispatch toks)
  if toks.head? == some "flush" then hout.flush
  loop hin hout

def main : IO Unit := do
  let hin ← IO.getStdin
  let hout ← IO.getStdout
  loop hin hout
  hout.flush
