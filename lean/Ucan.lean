import Ucan.Basic
import Ucan.Model.Command
import Ucan.Spec.Command
import Ucan.Lemmas.Command
import Ucan.Props.C15
