import Cbor
namespace Cbor

theorem beBytes_length (w n : Nat) : (beBytes w n).length = w := by
  induction w with
  | zero => rfl
  | succ w ih => simp [beBytes, ih]

theorem p256 (w : Nat) : 0 < 256^w := Nat.pow_pos (by decide)

theorem beBytes_mod (w n : Nat) : beBytes w n = beBytes w (n % 256^w) := by
  induction w generalizing n with
  | zero => rfl
  | succ v ihv =>
    simp only [beBytes]
    congr 1
    · rw [Nat.pow_succ, Nat.mod_mul_right_div_self, Nat.mod_mod_of_dvd _ (Nat.dvd_refl _)]
    · rw [ihv n, ihv (n % 256^(v+1))]
      congr 1
      rw [Nat.pow_succ, Nat.mod_mul_right_mod]

theorem beVal_beBytes (w n : Nat) (h : n < 256^w) : beVal (beBytes w n) = n := by
  induction w generalizing n with
  | zero => simp [beBytes, beVal]; simp at h; omega
  | succ w ih =>
    simp only [beBytes, beVal, beBytes_length]
    have h1 : n / 256^w < 256 := by
      apply Nat.div_lt_of_lt_mul; rw [Nat.pow_succ, Nat.mul_comm] at h; rw [Nat.mul_comm]; exact h
    rw [Nat.mod_eq_of_lt h1]
    have h2 : n % 256^w < 256^w := Nat.mod_lt _ (p256 w)
    rw [beBytes_mod, ih _ h2]
    exact (Nat.div_add_mod' n (256^w))

theorem readHead_head (m n : Nat) (r : Bytes) (hm : m < 8) (hn : n < 2^64) :
    readHead (head m n ++ r) = some (m, n, r) := by
  unfold head
  split
  · rename_i h
    have h1 : (m * 32 + n) / 32 = m := by omega
    have h2 : (m * 32 + n) % 32 = n := by omega
    simp [readHead, h1, h2, h]
  · split
    · have := beVal_beBytes 1 n (by omega)
      simp [readHead, beBytes_length, this]; omega
    · split
      · have := beVal_beBytes 2 n (by omega)
        simp [readHead, beBytes_length, this]; omega
      · split
        · have := beVal_beBytes 4 n (by omega)
          simp [readHead, beBytes_length, this]; omega
        · have := beVal_beBytes 8 n (by omega)
          simp [readHead, beBytes_length, this]; omega

mutual
def WF : Node → Prop
  | .uint n => n < 2^64
  | .bytes b => b.length < 2^64
  | .list xs => xs.length < 2^64 ∧ WFL xs
def WFL : List Node → Prop
  | [] => True
  | x :: xs => WF x ∧ WFL xs
end

mutual
def size : Node → Nat
  | .uint _ => 1
  | .bytes _ => 1
  | .list xs => 1 + sizeL xs
def sizeL : List Node → Nat
  | [] => 1
  | x :: xs => 1 + size x + sizeL xs
end

mutual
theorem decode_encode : ∀ (n : Node) (r : Bytes) (fuel : Nat), WF n → size n ≤ fuel →
    decodeF fuel (encode n ++ r) = some (n, r)
  | .uint n, r, fuel, hwf, hf => by
    cases fuel with
    | zero => simp [size] at hf
    | succ f => simp [encode, decodeF, readHead_head 0 n r (by decide) hwf]
  | .bytes b, r, fuel, hwf, hf => by
    cases fuel with
    | zero => simp [size] at hf
    | succ f =>
      simp only [encode, List.append_assoc, decodeF, readHead_head 2 b.length (b ++ r) (by decide) hwf]
      simp
  | .list xs, r, fuel, hwf, hf => by
    cases fuel with
    | zero => simp [size] at hf
    | succ f =>
      simp only [WF] at hwf
      simp only [size] at hf
      simp only [encode, List.append_assoc, decodeF, readHead_head 4 xs.length _ (by decide) hwf.1]
      simp [decodeList_encodeList xs r f hwf.2 (by omega)]
theorem decodeList_encodeList : ∀ (xs : List Node) (r : Bytes) (fuel : Nat), WFL xs → sizeL xs ≤ fuel →
    decodeListF fuel xs.length (encodeList xs ++ r) = some (xs, r)
  | [], r, fuel, _, hf => by
    cases fuel with
    | zero => simp [sizeL] at hf
    | succ f => simp [encodeList, decodeListF]
  | x :: xs, r, fuel, hwf, hf => by
    cases fuel with
    | zero => simp [sizeL] at hf
    | succ f =>
      simp only [WFL] at hwf
      simp only [sizeL] at hf
      simp only [encodeList, List.append_assoc, List.length_cons, decodeListF]
      simp [decode_encode x _ f hwf.1 (by omega), decodeList_encodeList xs r f hwf.2 (by omega)]
end

#print axioms decode_encode
end Cbor
