namespace Glob

abbrev B := Nat   -- a byte

inductive Tok where
  | lit (b : B)
  | star
  deriving DecidableEq, Repr

/-- declarative language of a token list -/
def matchSpec : List Tok → List B → Bool
  | [], s => s.isEmpty
  | .lit a :: ps, c :: s => a == c && matchSpec ps s
  | .lit _ :: _, [] => false
  | .star :: ps, [] => matchSpec ps []
  | .star :: ps, c :: s => matchSpec ps (c :: s) || matchSpec (.star :: ps) s
termination_by ps s => (ps.length + s.length, ps.length)

def allStar : List Tok → Bool
  | [] => true
  | .star :: ps => allStar ps
  | .lit _ :: _ => false

inductive Outcome where
  | fail
  | done (b : Bool)
  | star (ps : List Tok) (s : List B)

/-- run of literal comparisons: the Go loop between two wildcard events -/
def litRun : List Tok → List B → Outcome
  | ps, [] => .done (allStar ps)
  | [], _ :: _ => .fail
  | .star :: ps, c :: s => .star ps (c :: s)
  | .lit a :: ps, c :: s => if a == c then litRun ps s else .fail

theorem litRun_star_len {bp bs ps' s'} (h : litRun bp bs = .star ps' s') :
    s'.length ≤ bs.length ∧ ps'.length < bp.length := by
  induction bp generalizing bs with
  | nil => cases bs <;> simp [litRun] at h
  | cons t bp ih =>
    cases bs with
    | nil => simp [litRun] at h
    | cons c s =>
      cases t with
      | star => simp [litRun] at h; obtain ⟨rfl, rfl⟩ := h; simp
      | lit a =>
        simp only [litRun] at h
        split at h
        · have := ih h; simp; omega
        · cases h

/-- state "a star has been seen; `bp` follows it; the star currently absorbs up to the start of `bs`" -/
def scan (bp : List Tok) (bs : List B) : Bool :=
  match h : litRun bp bs with
  | .done b => b
  | .star ps' s' => scan ps' s'
  | .fail => match bs with
    | [] => false
    | _ :: bs' => scan bp bs'
termination_by (bs.length, bp.length)
decreasing_by
  · have := litRun_star_len h
    rcases Nat.lt_or_eq_of_le this.1 with h1 | h1
    · exact Prod.Lex.left _ _ h1
    · rw [h1]; exact Prod.Lex.right _ this.2
  · exact Prod.Lex.left _ _ (by simp)

/-- the matcher: no wildcard seen yet -/
def globMatch (ps : List Tok) (s : List B) : Bool :=
  match litRun ps s with
  | .done b => b
  | .star ps' s' => scan ps' s'
  | .fail => false

#eval globMatch [.star, .lit 1] [9, 0, 1]
#eval globMatch [.lit 9, .star, .lit 1, .star] [9, 0, 1, 1, 3]
#eval globMatch [.lit 9, .star, .lit 1] [9, 0, 1, 1, 3]
end Glob
