namespace Cbor

abbrev Bytes := List Nat   -- each < 256 (wf predicate kept separate)

inductive Node where
  | uint (n : Nat)
  | bytes (b : Bytes)
  | list (xs : List Node)
  deriving Repr, Inhabited

/-- big-endian, fixed width -/
def beBytes : Nat → Nat → Bytes
  | 0, _ => []
  | w+1, n => (n / 256^w) % 256 :: beBytes w n

def beVal : Bytes → Nat
  | [] => 0
  | b :: r => b * 256^r.length + beVal r

/-- canonical (shortest) head -/
def head (major : Nat) (n : Nat) : Bytes :=
  if n < 24 then [major * 32 + n]
  else if n < 256 then (major * 32 + 24) :: beBytes 1 n
  else if n < 65536 then (major * 32 + 25) :: beBytes 2 n
  else if n < 4294967296 then (major * 32 + 26) :: beBytes 4 n
  else (major * 32 + 27) :: beBytes 8 n

mutual
def encode : Node → Bytes
  | .uint n => head 0 n
  | .bytes b => head 2 b.length ++ b
  | .list xs => head 4 xs.length ++ encodeList xs
def encodeList : List Node → Bytes
  | [] => []
  | x :: xs => encode x ++ encodeList xs
end

/-- lenient head reader: any width accepted -/
def readHead : Bytes → Option (Nat × Nat × Bytes)
  | [] => none
  | b :: r =>
    let major := b / 32
    let ai := b % 32
    if ai < 24 then some (major, ai, r)
    else
      let w := if ai = 24 then 1 else if ai = 25 then 2 else if ai = 26 then 4 else if ai = 27 then 8 else 0
      if w = 0 then none
      else if r.length < w then none
      else some (major, beVal (r.take w), r.drop w)

mutual
def decodeF : Nat → Bytes → Option (Node × Bytes)
  | 0, _ => none
  | fuel+1, bs =>
    match readHead bs with
    | none => none
    | some (major, n, r) =>
      if major = 0 then some (.uint n, r)
      else if major = 2 then
        if r.length < n then none else some (.bytes (r.take n), r.drop n)
      else if major = 4 then
        match decodeListF fuel n r with
        | none => none
        | some (xs, r') => some (.list xs, r')
      else none
def decodeListF : Nat → Nat → Bytes → Option (List Node × Bytes)
  | 0, _, _ => none
  | _+1, 0, bs => some ([], bs)
  | fuel+1, k+1, bs =>
    match decodeF fuel bs with
    | none => none
    | some (x, r) =>
      match decodeListF fuel k r with
      | none => none
      | some (xs, r') => some (x :: xs, r')
end

#eval encode (.list [.uint 5, .bytes [1,2,3], .list [.uint 300]])
#eval decodeF 100 (encode (.list [.uint 5, .bytes [1,2,3], .list [.uint 300]]) ++ [7])
end Cbor
